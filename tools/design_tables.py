#!/usr/bin/env python3
"""Regenerates the auto tables of DESIGN.md section 0 from known_findings.txt, evidence/*.json, mutations/results.json and seeded/*/meta.json."""
import glob, json, os, re, collections
ROOT = os.path.dirname(os.path.dirname(os.path.abspath(__file__)))
d = open(os.path.join(ROOT, "DESIGN.md")).read()

def put(tag, body):
    global d
    a, b = f"<!-- BEGIN {tag} -->", f"<!-- END {tag} -->"
    i, j = d.index(a) + len(a), d.index(b)
    d = d[:i] + "\n" + body + "\n" + d[j:]

# fixed table
rows = collections.defaultdict(list)
for line in open(os.path.join(ROOT, "known_findings.txt")):
    m = re.match(r"fixed: property=(C\d+) (\S+) (.*)", line.strip())
    if m:
        rows[m.group(1)].append((m.group(2), m.group(3)))
body = ["| property | repaired defects (commit: what failed) |", "|---|---|"]
for pid in sorted(rows):
    cell = "<br>".join(f"`{c}` {w[:170]}{'…' if len(w) > 170 else ''}" for c, w in rows[pid])
    body.append(f"| {pid} ({len(rows[pid])}) | {cell} |")
body.append(f"\nTotal: {sum(len(v) for v in rows.values())} repaired defects, 0 open findings.")
put("FIXED TABLE", "\n".join(body))

# coverage table
body = ["| property | tier | states | transitions | distinct outcomes | exhaustive | wall s | bound (abridged) |", "|---|---|---|---|---|---|---|---|"]
for f in sorted(glob.glob(os.path.join(ROOT, "evidence", "C*.json"))):
    e = json.load(open(f)); c = e["coverage"]
    body.append(f"| {e['property_id']} | {e['tier']} | {c['states']} | {c['transitions']} | {c.get('distinct_outcomes')} | {c.get('exhaustive')} | {e['wall_s']} | {str(c.get('bound', ''))[:150]}… |")
put("COVERAGE TABLE", "\n".join(body))

# detection table
body = ["| change | property | origin | suite | quick check | what it needs to manifest / note |", "|---|---|---|---|---|---|"]
res = {}
rp = os.path.join(ROOT, "mutations", "results.json")
if os.path.exists(rp):
    res = json.load(open(rp))
for m in json.load(open(os.path.join(ROOT, "mutations", "mutations.json"))):
    r = res.get(m["id"], {})
    body.append(f"| {m['id']}: `{m['file']}` | {m['property']} | hand-written | {r.get('suite', '?')} | {r.get('check', '?')} | {m.get('why_suite_green', '')[:110]} |")
for f in sorted(glob.glob(os.path.join(ROOT, "seeded", "*", "meta.json"))):
    m = json.load(open(f))
    body.append(f"| seeded/{os.path.basename(os.path.dirname(f))} | {m.get('property')} | sub-agent | {m.get('suite', '?')} | {m.get('detected_by', '?')} | {str(m.get('needs', ''))[:140]} |")
put("DETECTION TABLE", "\n".join(body))
open(os.path.join(ROOT, "DESIGN.md"), "w").write(d)
print("tables regenerated")
