#!/usr/bin/env python3
"""debug helper: group replay files of a property by coarse key"""
import json, glob, collections, re, sys
pid = sys.argv[1]
depth = int(sys.argv[2]) if len(sys.argv) > 2 else 2
c = collections.Counter(); ex = {}
def top(core, depth):
    core = re.sub(r'\[[^\]]*\]', '', core)
    out = ''; d = 0
    for ch in core:
        if ch == '(':
            d += 1
            if d <= depth: out += ch
        elif ch == ')':
            if d <= depth: out += ch
            d -= 1
        elif d < depth or (d == depth and ch not in '()'):
            out += ch
    return out
for f in glob.glob(f'/verif/replays/{pid}/*.json'):
    r = json.load(open(f)); k = r['key'].split('|')
    obs = re.sub(r':[A-Za-z0-9]*$', '', k[1]) if len(k) > 1 else ''
    kk = (obs, k[2] if len(k) > 2 else '', top(k[3], depth) if len(k) > 3 else '')
    c[kk] += 1
    d = r.get('detail') or {}
    ex.setdefault(kk, (str(d.get('src'))[:100], str(d.get('msg') or '')[:80]))
for kk, n in sorted(c.items(), key=lambda x: -x[1])[:int(sys.argv[3]) if len(sys.argv) > 3 else 60]:
    print(n, kk, '::', ex[kk][0], '|', ex[kk][1])
print("groups:", len(c), "keys:", sum(c.values()))
