#!/usr/bin/env python3
"""Run the pinned test-suite of /repo (or a copy given as argv[1]) and compare with BASELINE.json stable_pass.
exit 0 iff every baseline-passing test still passes."""
import json, os, subprocess, sys, tempfile, xml.etree.ElementTree as ET
root = sys.argv[1] if len(sys.argv) > 1 else "/repo"
base = json.load(open("/root/.vp/BASELINE.json"))
want = set(base["stable_pass"])
with tempfile.TemporaryDirectory() as d:
    x = os.path.join(d, "j.xml")
    env = dict(os.environ, PYTHONPATH=root, PYTHONDONTWRITEBYTECODE="1")
    env.pop("COLA_VERIF", None)
    p = subprocess.run(["/venv/bin/python", "-m", "pytest", "-ra", "-q", "-p", "no:cacheprovider", "--timeout=900",
                        "--continue-on-collection-errors", f"--junitxml={x}"], cwd=root, env=env,
                       stdout=subprocess.PIPE, stderr=subprocess.STDOUT, text=True)
    tree = ET.parse(x)
passed = set()
for tc in tree.iter("testcase"):
    name = f"{tc.get('classname')}::{tc.get('name')}"
    if not any(ch.tag in ("failure", "error", "skipped") for ch in tc):
        passed.add(name)
missing = sorted(want - passed)
print(f"baseline stable_pass={len(want)} passed_now={len(passed)} baseline_tests_not_passing={len(missing)}")
for m in missing[:20]:
    print("  NOT PASSING:", m)
sys.exit(1 if missing else 0)
