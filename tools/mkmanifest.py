#!/usr/bin/env python3
"""Generates /verif/MANIFEST.json from the table below (one row per claimed property)."""
import json, os
ROOT = os.path.dirname(os.path.dirname(os.path.abspath(__file__)))
TECH = "bounded-exhaustive explicit-state exploration of the real implementation against a reference model"
NOTE = ("NumPy backend only, harness shim for vmap/linear_transpose/sparse_csr/to_np; payloads from small exact alphabets; "
        "reference models in mc/ are the specification")
CHECKS = {
 "C01": ("operator terms (size-bounded, nested leaf alphabets) x {shape, dtype, to_dense, A@x for 7 operands}; bit-exact vs reference interpreter",
         "every operator term up to the size bound over the leaf/combinator alphabets is built with the real constructors and its shape, dtype, dense form and products are compared bit-exactly with an independent reference interpreter"),
 "C02": ("C01 term space x 14 towers over {T,H} (depth<=3) x 5 left operands; bit-exact vs transposes / left products of the reference matrix",
         "every term of the C01 space is transposed / adjointed through every tower of depth<=3 and left-multiplied by 5 operands; dense forms, shapes, dtypes and products are compared bit-exactly with the reference interpreter"),
 "C03": ("algebraic expressions via the overloads and functional API (10 scalars, ndarray operands, sum(), block_diag, lazify/densify) + scalar/operator + every shape-mismatched ordered leaf pair x 6 constructs",
         "every algebraic expression up to the size bound is built through the Python overloads / functional API and compared bit-exactly (matrix, shape, admissible dtype) with the reference interpreter and differentially with the raw constructors; every incompatible ordered pair of leaves must be rejected by all six sum/product forms"),
 "C05": ("annotated operator terms (every combination of true declarations, all scalars, A^H A patterns on one object) + declaration wrapper + outputs of lanczos/arnoldi/eig/svd/matrix functions/inv/cholesky/plu for all truncations; truth test on the reference matrix",
         "every annotation reported by every enumerated operator term or routine output is tested for truth on the exact reference matrix (Hermitian / PSD / unitary / orthonormal columns); the declaration wrapper is checked to leave its argument unchanged"),
 "C20": ("(operator of every kind and depth-1 nesting) x every index expression (int pairs, rows, 245 slices per axis, index arrays incl. unsorted/negative/repeated, list pairs); same expression on the reference matrix",
         "every enumerated indexing expression on every enumerated operator is compared with the same expression on the exact reference matrix; sub-operators additionally through shape, dtype, to_dense, products with real and complex operands on both sides"),
 "C04": ("complete lattice function x operator class (all classes found by walking LinearOperator.__subclasses__, plus one-level composites) x annotation x algorithm class x optional-argument arity: real plum resolver on real arguments, then the public call",
         "every point of the finite (function, kind, annotation, algorithm, arity) lattice is resolved with the live rule table and, for admitted algorithms, executed through the public entry point; AmbiguousLookupError anywhere and NotFoundLookupError on admitted tuples are violations"),
 "C13": ("(operator family, size, right-hand side, x0, tol, entry point) x every truncation m: each m-step run is a checked state; independent Krylov least-squares optimum (exact rationals for real integer systems n<=6)",
         "for every enumerated system and every iteration cap m the returned iterate is compared per column with the independently computed minimum of ||b - A x|| over x0 + K_m, plus monotonicity in m, convergence at full dimension, the cap on products with A and non-mutation of inputs"),
 "C06": ("invertible operator terms (every kind with/without an inverse rule, PSD/Unitary declarations, depth<=2 nestings) x 8 algorithm settings x 4 right-hand sides x {inv@b, solve, dense inverse, left product, transpose, adjoint}; Auto switch at 10^6 entries",
         "every enumerated (invertible term, algorithm) pair is solved through inv and solve for 4 right-hand sides and judged by the relative residual against the reference matrix; inv(A) is densified and, on direct paths, transposed / left-multiplied and compared with the reference inverse"),
 "C07": ("invertible operator terms (|det| on both sides of 1, both signs / four phases, both permutation parities, scalar operators of several sizes, depth<=2) x 6 (log algorithm, trace algorithm) pairs; determinant of the reference matrix (exact Bareiss cross-check)",
         "for every enumerated (non-singular term, algorithm pair) slogdet's sign and log-magnitude and logdet are compared with the determinant of the exact reference matrix"),
 "C08": ("square operator terms (depth<=2, incl. square composites of rectangular factors) x EVERY offset -n<k<n x {omitted, Exact, Auto}; probing sizes on both sides of the block size 100; numpy.diag of the reference + differential against probing on no_dispatch(A)",
         "for every enumerated term, every offset and every exact algorithm setting diag and trace are compared (value, length, dtype) with the reference matrix, and every structural rule with the generic probing algorithm on the same operator"),
 "C11": ("positive-definite (cholesky) and non-singular (plu) operator terms over Dense/Identity/Diagonal/ScalarMul/... with Kronecker (2-3 factors) and BlockDiag (multiplicities) nestings to depth 2; triangularity, reconstruction and structure of the returned factors",
         "for every enumerated term the returned factors are densified and checked for exact triangularity, permutation-matrix form, reconstruction of the reference matrix, and (for Kronecker / BlockDiag inputs) factor-wise structure"),
 "C09": ("spectrum-controlled operators (PSD, general real with conjugate pairs / complex, singular PSD, Diagonal) and every structural rule nested to depth 2 x 17 functions x 8 algorithm settings x 3 operands; f(A)x from the eigendecomposition of the reference (scipy cross-check), algebraic identities",
         "for every enumerated (operator, function, algorithm) the action of the returned operator on 2-3 operands is compared with f(A)x computed from the reference eigendecomposition, plus sqrt-twice, pow(-1)-solves and integer-power identities"),
 "C10": ("11 operator families with prescribed simple spectra (self-adjoint definite / indefinite, real with conjugate pairs, complex, Diagonal, Triangular lower/upper, Identity) x sizes x ALL 1<=k<=n x {LM, SM} x 11 algorithm settings (caps n, n+2, default); eigmax / eigmin",
         "for every enumerated (family, n, k, which, algorithm) the returned values are compared as a multiset with the k extreme-modulus eigenvalues of the prescribed spectrum and every returned pair with the eigen-equation, independence and (self-adjoint input) orthonormality"),
 "C16": ("m x n operators in {1..5}^2 plus tall/wide/large shapes, real and complex with prescribed singular values, structural kinds x ALL 1<=k<=min(m,n) x {LM, SM} x 4 svd algorithms; pinv on the same operators x 4 algorithms x 3-4 right-hand sides",
         "for every enumerated (operator, k, which, algorithm) orthonormality of U and V, non-negativity of Sigma and the reconstruction (A itself or the requested rank-k part) are checked; pinv(A) b is compared with the minimum-norm least-squares solution from numpy.linalg.pinv of the reference"),
 "C12": ("(system family, size, right-hand side, x0, preconditioner) x EVERY truncation max_iters (each prefix run is a checked state) x 3 tolerances x scalings x entry points; independent Krylov optimum in exact rational arithmetic for n<=6",
         "for every enumerated system every k-step prefix of CG is compared per column with the independently computed A-norm optimum over x0 + K_k(PA, P r0); the cap on products, the stopping inequality at the stop and one step earlier, exact zeros for zero right-hand sides, linearity in b and the bookkeeping are checked on the same runs"),
 "C14": ("(Hermitian operator family incl. repeated / clustered spectra and aliasing-prone kinds, size, start vector incl. eigenvectors and a batch, tol, entry point) x EVERY iteration cap: each capped run is a checked state",
         "for every enumerated run the returned Q and T are checked for the column bound, orthonormality, the first column, a real symmetric tridiagonal T with non-negative off-diagonal equal to Q^H A Q, the three-term relation, the Krylov span, early termination with exact Ritz values at an exhausted space, and ascending Ritz pairs from lanczos_eigs"),
 "C15": ("(square operator family, size, start vector incl. invariant subspaces of dimension 1-3 and a batch, tol, entry point) x EVERY iteration cap below, at and above n: each capped run is a checked state",
         "for every enumerated run the shapes, first column, Hessenberg form with non-negative sub-diagonal, orthonormality of the required leading columns, the Arnoldi relation, zero weight beyond the Krylov dimension, exact zero padding and equality with the m = n result for m > n are checked; arnoldi_eigs must return the spectrum at m >= n and nothing spurious after a breakdown"),
 "C17": ("operation histories: every sequence of <=2 (quick) / <=3 (thorough) events over all randomised cola routines x keys and user draws from numpy.random; Hutchinson expectation by enumerating the full Rademacher probe cube through a seam on the backend's randn",
         "after every step of every enumerated history numpy's global generator state is bit-identical, every keyed call equals its clean-state result, and user draws equal those of the history without cola calls; the average of the Hutchinson estimate over the whole sign cube must equal the true diagonal exactly for all offsets"),
 "C19": ("complete lattice {structured operators with n ~ 1000-1300 built from small factors} x {64 entry points with the algorithm argument omitted / Auto / explicit}; points are selected by reading the live rule table; allocation monitor (tracemalloc) on every execution",
         "every lattice point with a structural rule is executed under tracemalloc; the peak additional memory must stay below 64 x (operand + dense sizes of the factors the rules may materialise) + 64 KiB, a factor 10-100 below the full matrix"),
 "C18": ("(a) operation sequences on a pool of 20 operators and caller-owned arrays with results flowing forward: all of length 1 (also read-only), all flow-forward / same-operator / two-operator sequences of length 2, (thorough) all consuming chains of length 3; (b) all ordered first-instantiation histories of <=2 (<=3) constructor events, each in a child forked from a process that never built an operator",
         "after every step of every enumerated sequence the bytes / flags / strides of every caller-owned array and the dense form and annotations of every touched operator are compared with their initial values, every executed call is repeated and must be bit-identical, module-level defaults are compared; for every instantiation history the flatten / unflatten / leaf-substitution probe of 22 operator kinds must equal the expected facts"),
}
PENDING = {}
props = [json.loads(l) for l in open(os.path.join(ROOT, "properties.jsonl"))]
checks, na = [], []
for p in props:
    pid = p["id"]
    if pid in CHECKS:
        tech, text = CHECKS[pid]
        checks.append({
            "property_id": pid, "quick_cmd": f"./check {pid} --tier quick", "thorough_cmd": f"./check {pid} --tier thorough",
            "evidence_file": f"evidence/{pid}.json", "replay_cmd_template": f"./check {pid} --replay {{path}}",
            "engine": "mc-explorer", "technique": TECH + ": " + tech,
            "level_claimed": {"category": "model_checking", "text": text, "design_ref": f"DESIGN.md section 3, {pid}"},
            "level_note": NOTE})
    else:
        na.append({"property_id": pid, "reason": PENDING.get(pid, "explorer for this property is not built yet (work in progress; model checking applies)")})
m = {
 "version": 1,
 "setup_cmd": "./check selfcheck",
 "hooks": {
  "guard": "COLA_VERIF",
  "enable": "no source hooks are needed: cola is installed editable from /repo so every check imports the working tree; the harness-side NumPy shim (mc/shim.py) is installed at import time. ./check exports COLA_VERIF=1 but nothing in /repo reads it.",
  "baseline_off_cmd": "cd /repo && /venv/bin/python -m pytest -ra -q -p no:cacheprovider --timeout=900 --continue-on-collection-errors",
  "source_commits": [], "add_only": True},
 "engines": [{"name": "mc-explorer", "path": "mc/", "serves_properties": sorted(CHECKS),
              "kind_free_text": "explicit-state bounded-exhaustive explorer over operator terms / configuration lattices / operation histories, driving the real cola code in forked workers and comparing every state with an independent NumPy reference model; known-findings matching, replay artefacts, evidence"}],
 "checks": checks, "not_applicable": na,
 "notes": "fix: commits made in /repo are listed in known_findings.txt; see DESIGN.md section 5 and Appendix B"}
json.dump(m, open(os.path.join(ROOT, "MANIFEST.json"), "w"), indent=1)
print("checks:", len(checks), "not_applicable:", len(na))
