#!/usr/bin/env python3
"""Detection demonstrations: apply one mutation to a scratch copy of /repo/cola, (optionally) run the pinned suite
on the copy, run the property's check with COLA_SRC pointing at the copy, expect a VIOLATION line; remove the copy.
usage: selftest.py [--suite] [--tier quick] [--seeds 0,1,2] [ids...]"""
import json, os, shutil, subprocess, sys, tempfile
ROOT = os.path.dirname(os.path.dirname(os.path.abspath(__file__)))
muts = json.load(open(os.path.join(ROOT, "mutations", "mutations.json")))
args = sys.argv[1:]
suite = "--suite" in args
tier = "quick"
seeds = ["0"]
ids = []
i = 0
while i < len(args):
    a = args[i]
    if a == "--tier": tier = args[i + 1]; i += 1
    elif a == "--seeds": seeds = args[i + 1].split(","); i += 1
    elif a != "--suite": ids.append(a)
    i += 1
ok = True
RES = os.path.join(ROOT, "mutations", "results.json")
results = json.load(open(RES)) if os.path.exists(RES) else {}
for m in muts:
    if ids and m["id"] not in ids and m["property"] not in ids:
        continue
    d = tempfile.mkdtemp(prefix="colamut_")
    try:
        for sub in ("cola", "tests", "pytest.ini", "setup.cfg", "pyproject.toml", "setup.py"):
            src = os.path.join("/repo", sub)
            if os.path.isdir(src): shutil.copytree(src, os.path.join(d, sub))
            elif os.path.exists(src): shutil.copy(src, d)
        p = os.path.join(d, m["file"])
        s = open(p).read()
        if m["old"] not in s:
            print(f"{m['id']}: PATCH DOES NOT APPLY"); ok = False; continue
        open(p, "w").write(m.get("extra_import", "") + s.replace(m["old"], m["new"], 1))
        line = f"{m['id']} ({m['property']}):"
        rec = results.setdefault(m["id"], {})
        if suite:
            r = subprocess.run([os.path.join(ROOT, "tools", "suite.py"), d], capture_output=True, text=True)
            line += " suite=" + ("green" if r.returncode == 0 else "RED")
            rec["suite"] = "green" if r.returncode == 0 else "RED (caught by the suite)"
        for sd in seeds:
            env = dict(os.environ, COLA_SRC=d, VERIF_SEED=sd)
            r = subprocess.run([os.path.join(ROOT, "check"), m["property"], "--tier", tier, "--no-evidence"], env=env,
                               capture_output=True, text=True)
            hit = "VIOLATION" in r.stdout
            nk = [l for l in r.stdout.splitlines() if l.startswith(m["property"] + " tier=")]
            line += f" seed{sd}:" + ("DETECTED" if hit else f"MISSED(rc={r.returncode})")
            rec["check"] = ("detected" if hit else "MISSED") if rec.get("check") != "MISSED" or hit else "MISSED"
            if not hit: ok = False
            if r.returncode == 2: line += " HARNESS-ERROR " + r.stdout[-300:]
        print(line, flush=True)
    finally:
        shutil.rmtree(d, ignore_errors=True)
        shutil.rmtree(os.path.join(ROOT, "replays", m["property"]), ignore_errors=True)
json.dump(results, open(RES, "w"), indent=1, sort_keys=True)
sys.exit(0 if ok else 1)
