#!/usr/bin/env python3
"""compact grouping of replay keys: gk.py PID [fields...] ; fields = indices into key split by '|' (top kind for sigs)"""
import json, glob, collections, re, sys
pid = sys.argv[1]; fields = [int(x) for x in sys.argv[2:]] or [1, 2, 3]
c = collections.Counter(); ex = {}
for f in glob.glob(f'/verif/replays/{pid}/*.json'):
    r = json.load(open(f)); k = r['key'].split('|')
    kk = tuple((re.match(r'[A-Za-z0-9_]+', k[i]).group(0) if i >= 4 and k[i][:1].isalpha() else k[i]) if i < len(k) else '' for i in fields)
    c[kk] += 1
    d = r.get('detail') or {}
    ex.setdefault(kk, (str(d.get('src', ''))[:60], str(d.get('msg', ''))[:60], {x: d[x] for x in d if x in ('sign', 'logabs', 'want_sign', 'want_logabs', 'rel_err', 'n')}))
for kk, n in sorted(c.items(), key=lambda x: -x[1])[:45]:
    print(n, kk, ex[kk])
print("groups", len(c), "keys", sum(c.values()))
