#!/usr/bin/env python3
"""tools/reseed.py [ids...]: re-validate the kept sub-agent changes against the CURRENT checks and the CURRENT /repo HEAD: every seeded/<id>/patch.diff is
applied to a scratch export of HEAD (changes that no longer apply because the code they touch was repaired since are reported as such), the check(s)
that caught it are run at the quick tier with COLA_SRC on the copy and must print VIOLATION.  Writes seeded/<id>/meta.json:revalidated."""
import json, os, shutil, subprocess, sys, tempfile
ROOT = os.path.dirname(os.path.dirname(os.path.abspath(__file__)))
ids = sys.argv[1:] or sorted(os.listdir(os.path.join(ROOT, "seeded")))
bad = 0
for sid in ids:
    d = os.path.join(ROOT, "seeded", sid)
    mp = os.path.join(d, "meta.json")
    if not os.path.exists(mp):
        continue
    meta = json.load(open(mp))
    props = [p.strip() for p in meta.get("detected_by", "").split(",") if p.strip() and p.strip() != "MISSED"] or meta.get("checked_against", [])[:1]
    tmp = tempfile.mkdtemp(prefix="reseed_")
    try:
        subprocess.check_call(f"git -C /repo archive HEAD | tar -x -C {tmp}", shell=True)
        r = subprocess.run(["git", "apply", os.path.join(d, "patch.diff")], cwd=tmp, capture_output=True, text=True)
        if r.returncode != 0:
            r = subprocess.run(f"patch -p1 --no-backup-if-mismatch < {os.path.join(d, 'patch.diff')}", shell=True, cwd=tmp, capture_output=True, text=True)
        if r.returncode != 0:
            meta["revalidated"] = "patch no longer applies to HEAD (the code it changes was repaired or rewritten since)"
            print(sid, "PATCH-STALE")
        else:
            res = {}
            for p in props[:1]:
                rr = subprocess.run([os.path.join(ROOT, "check"), p, "--tier", "quick", "--no-evidence"], env=dict(os.environ, COLA_SRC=tmp, VERIF_SEED="0"),
                                    capture_output=True, text=True)
                res[p] = "VIOLATION" in rr.stdout
                shutil.rmtree(os.path.join(ROOT, "replays", p), ignore_errors=True)
            meta["revalidated"] = {p: ("detected" if v else "MISSED") for p, v in res.items()}
            ok = all(res.values())
            bad += 0 if ok else 1
            print(sid, "ok" if ok else "MISSED", res)
    finally:
        shutil.rmtree(tmp, ignore_errors=True)
    json.dump(meta, open(mp, "w"), indent=1)
sys.exit(1 if bad else 0)
