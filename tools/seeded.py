#!/usr/bin/env python3
"""tools/seeded.py <seed-id> <worktree> <property> [more properties]: confirm a sub-agent's change and file it under /verif/seeded/<seed-id>/.
Steps (on scratch copies of /repo's HEAD, never /repo itself): patch applies; demo exits 0 without and 1 with the patch; pinned suite green with the
patch; then the quick check(s) of the property run against the patched copy (COLA_SRC) and must print VIOLATION."""
import json, os, shutil, subprocess, sys, tempfile
ROOT = os.path.dirname(os.path.dirname(os.path.abspath(__file__)))
sid, wt, props = sys.argv[1], sys.argv[2], sys.argv[3:]
src = os.path.join(wt, "seeded")
dst = os.path.join(ROOT, "seeded", sid)
os.makedirs(dst, exist_ok=True)
for f in ("patch.diff", "demo.py", "notes.md"):
    shutil.copy(os.path.join(src, f), os.path.join(dst, f))
meta = {"id": sid, "property": props[0], "checked_against": props}
clean = tempfile.mkdtemp(prefix="seedclean_")
pat = tempfile.mkdtemp(prefix="seedpatch_")
try:
    for d in (clean, pat):
        subprocess.check_call(f"git -C /repo archive HEAD | tar -x -C {d}", shell=True)
    r = subprocess.run(["git", "apply", "--verbose", os.path.join(dst, "patch.diff")], cwd=pat, capture_output=True, text=True)
    meta["patch_applies"] = r.returncode == 0
    if r.returncode != 0:
        # git apply outside a repository needs -p1 default and no index: try patch(1)
        r = subprocess.run(f"patch -p1 < {os.path.join(dst, 'patch.diff')}", shell=True, cwd=pat, capture_output=True, text=True)
        meta["patch_applies"] = r.returncode == 0
    def demo(root):
        env = dict(os.environ, PYTHONPATH=root)
        env.pop("COLA_SRC", None)
        return subprocess.run(["/venv/bin/python", os.path.join(dst, "demo.py")], env=env, capture_output=True, text=True, cwd=root, timeout=900).returncode
    meta["demo_clean_rc"], meta["demo_patched_rc"] = demo(clean), demo(pat)
    r = subprocess.run([os.path.join(ROOT, "tools", "suite.py"), pat], capture_output=True, text=True)
    meta["suite"] = "green" if r.returncode == 0 else "RED"
    det = {}
    for p in props:
        r = subprocess.run([os.path.join(ROOT, "check"), p, "--tier", "quick", "--no-evidence"], env=dict(os.environ, COLA_SRC=pat, VERIF_SEED="0"),
                           capture_output=True, text=True)
        keys = [l.strip()[:200] for l in r.stdout.splitlines() if l.strip().startswith("key=")]
        det[p] = {"detected": "VIOLATION" in r.stdout, "rc": r.returncode, "first_keys": keys[:3], "n_keys": len(keys)}
        shutil.rmtree(os.path.join(ROOT, "replays", p), ignore_errors=True)
    meta["checks"] = det
    meta["detected_by"] = ", ".join(p for p in props if det[p]["detected"]) or "MISSED"
    diff = open(os.path.join(dst, "patch.diff")).read()
    meta["files_changed"] = sorted({l[6:].strip() for l in diff.splitlines() if l.startswith("+++ b/")})
finally:
    shutil.rmtree(clean, ignore_errors=True); shutil.rmtree(pat, ignore_errors=True)
old = {}
mp = os.path.join(dst, "meta.json")
if os.path.exists(mp):
    old = json.load(open(mp))
for k in ("needs", "what", "history"):
    if k in old: meta[k] = old[k]
json.dump(meta, open(mp, "w"), indent=1)
print(json.dumps({k: meta[k] for k in ("id", "patch_applies", "demo_clean_rc", "demo_patched_rc", "suite", "detected_by")}))
