#!/usr/bin/env python3
"""tools/refix.py [property ids...]: for every `fixed:` entry of known_findings.txt, re-introduce the defect (git revert --no-commit of that fix: commit in a
scratch worktree of /repo under /tmp) and run the entry's quick check against it: the violation must be reported again.  Reverts that no longer apply
cleanly (later repairs touched the same lines) are listed as such.  Writes mutations/refix_results.json."""
import json, os, re, shutil, subprocess, sys, tempfile
ROOT = os.path.dirname(os.path.dirname(os.path.abspath(__file__)))
want = set(sys.argv[1:])
entries = []
for line in open(os.path.join(ROOT, "known_findings.txt")):
    m = re.match(r"fixed: property=(C\d\d) ([0-9a-f]{7,}) (.*)", line)
    if m and (not want or m.group(1) in want):
        entries.append(m.groups())
out_p = os.path.join(ROOT, "mutations", "refix_results.json")
res = json.load(open(out_p)) if os.path.exists(out_p) else {}
seen = set()
for prop, sha, what in entries:
    key = f"{prop}:{sha}"
    if key in seen:
        continue
    seen.add(key)
    wt = tempfile.mkdtemp(prefix="refix_")
    os.rmdir(wt)
    try:
        subprocess.run(["git", "-C", "/repo", "worktree", "add", "--detach", wt, "HEAD"], check=True, capture_output=True)
        r = subprocess.run(["git", "-C", wt, "revert", "--no-commit", sha], capture_output=True, text=True)
        if r.returncode != 0:
            res[key] = {"status": "revert-conflict", "what": what[:160]}
            print(key, "revert-conflict")
            continue
        rr = subprocess.run([os.path.join(ROOT, "check"), prop, "--tier", "quick", "--no-evidence"], env=dict(os.environ, COLA_SRC=wt, VERIF_SEED="0"),
                            capture_output=True, text=True)
        det = "VIOLATION" in rr.stdout
        nk = sum(1 for l in rr.stdout.splitlines() if l.strip().startswith("key="))
        res[key] = {"status": "detected" if det else "NOT-DETECTED", "keys": nk, "what": what[:160]}
        print(key, res[key]["status"], nk)
        shutil.rmtree(os.path.join(ROOT, "replays", prop), ignore_errors=True)
    finally:
        subprocess.run(["git", "-C", "/repo", "worktree", "remove", "--force", wt], capture_output=True)
        shutil.rmtree(wt, ignore_errors=True)
    json.dump(res, open(out_p, "w"), indent=1)
subprocess.run(["git", "-C", "/repo", "worktree", "prune"], capture_output=True)
