#!/bin/bash
# tools/seeds.sh "<ids>" "<seeds>" [tier]  : run every check for several VERIF_SEED values, print one line per run
cd "$(dirname "$0")/.."
ids=${1:-"C01 C02 C03 C04 C05 C06 C07 C08 C09 C10 C11 C12 C13 C14 C15 C16 C17 C18 C19 C20"}
seeds=${2:-"1 2 3"}
tier=${3:-quick}
for s in $seeds; do for p in $ids; do
  [ -f props/$(echo $p | tr A-Z a-z).py ] || continue
  out=$(VERIF_SEED=$s ./check $p --tier $tier --no-evidence 2>&1); rc=$?
  echo "seed=$s rc=$rc $(echo "$out" | grep "^$p tier" | cut -c1-170)"
  [ $rc -ne 0 ] && echo "$out" | grep "key=" | head -5 | cut -c1-220
done; done
