#!/usr/bin/env python3
"""tools/coverage.py [ids...]: run the quick checks with VERIF_COVERAGE=1 (sys.monitoring line events inside the worker processes), merge the lines of
/repo/cola they executed and list, per anchored source file, the executable lines NO explored state reached.  A blind-spot finder for the alphabets:
it decides nothing.  Output: coverage/summary.md and coverage/uncovered.json under /verif."""
import dis, json, os, subprocess, sys, tempfile
ROOT = os.path.dirname(os.path.dirname(os.path.abspath(__file__)))
ids = sys.argv[1:] or [f"C{i:02d}" for i in range(1, 21)]
import importlib.util
cola_root = os.path.join(os.environ.get("COLA_SRC", "/repo"), "cola")
hit = set()
tmp = tempfile.mkdtemp(prefix="verifcov_")
for p in ids:
    out = os.path.join(tmp, f"{p}.json")
    r = subprocess.run([os.path.join(ROOT, "check"), p, "--tier", "quick", "--no-evidence"], env=dict(os.environ, VERIF_COVERAGE="1", VERIF_COVERAGE_OUT=out),
                       capture_output=True, text=True)
    print(p, r.stdout.strip().splitlines()[-1][:120] if r.stdout.strip() else r.stderr[-200:])
    if os.path.exists(out):
        hit.update(map(tuple, json.load(open(out))))
        os.remove(out)
os.rmdir(tmp)


def executable_lines(path):
    src = open(path).read()
    code = compile(src, path, "exec")
    lines, stack = set(), [code]
    while stack:
        c = stack.pop()
        body = [ln for (_, _, ln) in c.co_lines() if ln is not None]
        first = c.co_firstlineno
        lines.update(ln for ln in body if ln != first or c is code)
        stack.extend(k for k in c.co_consts if hasattr(k, "co_lines"))
    return lines


SKIP = ("backends/torch_fns.py", "backends/jax_fns.py", "utils/jax_tqdm.py", "utils/torch_tqdm.py", "utils/utils_for_tests.py", "linalg/tbd/svrg.py", "version.py")
rows, unc = [], {}
for d, _, fs in os.walk(cola_root):
    for f in fs:
        if not f.endswith(".py"):
            continue
        path = os.path.join(d, f)
        rel = os.path.relpath(path, cola_root)
        if rel in SKIP:
            continue
        ex = executable_lines(path)
        got = {ln for (fn, ln) in hit if fn == rel}
        miss = sorted(ex - got)
        # lines executed at import time in the parent (def / class / decorator lines) are not seen by the workers: drop lines that only define
        src = open(path).read().splitlines()
        miss = [ln for ln in miss if not src[ln - 1].lstrip().startswith(("def ", "class ", "@", "import ", "from ", '"""', "'''")) and src[ln - 1].strip()]
        rows.append((rel, len(ex), len(miss)))
        if miss:
            unc[rel] = miss
os.makedirs(os.path.join(ROOT, "coverage"), exist_ok=True)
json.dump(unc, open(os.path.join(ROOT, "coverage", "uncovered.json"), "w"), indent=0)
with open(os.path.join(ROOT, "coverage", "summary.md"), "w") as f:
    f.write("| file | executable lines | not reached by any quick check |\n|---|---|---|\n")
    for rel, n, m in sorted(rows):
        f.write(f"| {rel} | {n} | {m} |\n")
print("written coverage/summary.md")
