"""C19 -- structured operators are never densified: cost stays proportional to the factors.

A completely enumerated configuration lattice (operator x entry point with a structural rule x algorithm argument), each point executed
under an allocation monitor (tracemalloc).  Which (function, operator) pairs "have a structural rule" is read from the live rule table."""
import gc
import tracemalloc
import warnings

import numpy as np
import plum

import cola
import cola.linalg as L
from cola import ops
from cola.linalg.decompositions.decompositions import cholesky, plu
from mc import payload as P

PROPERTY = "C19"
ASSUMPTIONS = [
    "peak additional traced memory must stay below 64 x (operand bytes + sum of the dense sizes of the individual factors) + 64 KiB; on the "
    "unchanged tree factor-wise paths peak at <= ~14 x that base and densifying paths at >= ~1000 x (n ~ 1000-1300), so the threshold is "
    "not delicate; wall time is recorded, never asserted",
    "x @ A is monitored only for kinds with an explicit left product or the self-adjoint shortcut: the harness shim's linear_transpose "
    "(NumPy has no matrix-free transposition) densifies by construction",
    "NumPy backend only",
]
FUNCS = ["inv", "slogdet", "diag", "trace", "apply_unary", "exp", "pow", "cholesky", "plu"]


# (function, kind) pairs the property statement itself names: their structural rule must exist in the live rule table
REQUIRED = {
    "inv": ["Kronecker", "BlockDiag", "Diagonal", "Identity", "ScalarMul", "Product"],
    "slogdet": ["Kronecker", "BlockDiag", "Diagonal", "Identity", "ScalarMul", "Product"],
    "diag": ["Kronecker", "BlockDiag", "Diagonal", "Identity", "ScalarMul", "KronSum"],
    "trace": ["Kronecker"],
    "apply_unary": ["BlockDiag", "Diagonal", "Identity", "ScalarMul"],
    "exp": ["KronSum"],
    "pow": ["Kronecker"],
    "cholesky": ["Kronecker", "BlockDiag", "Diagonal", "Identity", "ScalarMul"],
    "plu": ["Kronecker", "BlockDiag", "Diagonal", "Identity", "ScalarMul"],
}


def spd(seed, n, tag):
    g = P.rng(seed, "c19", n, tag)
    B = P.ints(g, (n, n), -1, 1)
    return B @ B.T + (n + 1) * np.eye(n)


def operators(seed, tier):
    """name -> (builder -> operator, dense bytes of the individual factors)"""
    S = lambda n, t: spd(seed, n, t)  # noqa: E731
    D = lambda M: cola.PSD(ops.Dense(M))  # noqa: E731
    out = {}

    def reg(name, fn):
        out[name] = fn

    reg("Kronecker2[32x32,32x32]", lambda: ops.Kronecker(D(S(32, "a")), D(S(32, "b"))))
    reg("KronSum2[30x30,36x36]", lambda: ops.KronSum(D(S(30, "a")), D(S(36, "b"))))
    reg("BlockDiag[6x6 x150, 10x10 x20]", lambda: ops.BlockDiag(D(S(6, "a")), D(S(10, "b")), multiplicities=[150, 20]))
    reg("Diagonal[1200]", lambda: ops.Diagonal(np.linspace(1.0, 3.0, 1200)))
    reg("Identity[1200]", lambda: ops.Identity((1200, 1200), np.float64))
    reg("ScalarMul[1200]", lambda: ops.ScalarMul(2.5, (1200, 1200), dtype=np.float64))
    reg("Permutation[1200]", lambda: ops.Permutation(np.roll(np.arange(1200), 7), np.float64))
    reg("Tridiagonal[1200]", lambda: ops.Tridiagonal(np.ones(1199), 4 * np.ones(1200), np.ones(1199)))
    reg("Product[Kronecker2,Diagonal]", lambda: ops.Kronecker(D(S(32, "a")), D(S(32, "b"))) @ ops.Diagonal(np.linspace(1.0, 2.0, 1024)))
    reg("Product[ScalarMul,Kronecker2]", lambda: 3.0 * ops.Kronecker(D(S(32, "a")), D(S(32, "b"))))
    reg("Sum[Kronecker2,Diagonal]", lambda: ops.Kronecker(D(S(32, "a")), D(S(32, "b"))) + ops.Diagonal(np.linspace(1.0, 2.0, 1024)))
    reg("Sum[BlockDiag,Identity]", lambda: ops.BlockDiag(D(S(6, "a")), multiplicities=[200]) + ops.Identity((1200, 1200), np.float64))
    # the same structures without per-factor declarations: plain factors, and one declaration on the whole operator
    Dp = lambda M: ops.Dense(M.astype(np.float64))  # noqa: E731
    reg("Kronecker2[plain 32x32,32x32]", lambda: ops.Kronecker(Dp(S(32, "a")), Dp(S(32, "b"))))
    reg("PSD(Kronecker2[plain 32x32,32x32])", lambda: cola.PSD(ops.Kronecker(Dp(S(32, "a")), Dp(S(32, "b")))))
    reg("Kronecker2[PSD 32x32, Diagonal 32]", lambda: ops.Kronecker(D(S(32, "a")), ops.Diagonal(np.linspace(1., 2., 32))))
    reg("BlockDiag[plain 6x6 x150, 10x10 x20]", lambda: ops.BlockDiag(Dp(S(6, "a")), Dp(S(10, "b")), multiplicities=[150, 20]))
    reg("PSD(BlockDiag[plain 6x6 x200])", lambda: cola.PSD(ops.BlockDiag(Dp(S(6, "a")), multiplicities=[200])))
    if tier == "thorough":
        reg("Kronecker3[10x10x3]", lambda: ops.Kronecker(D(S(10, "a")), D(S(10, "b")), D(S(10, "c"))))
        reg("Kronecker4[6x6x4]", lambda: ops.Kronecker(D(S(6, "a")), D(S(6, "b")), D(S(6, "c")), D(S(6, "d"))))
        reg("KronSum3[10x10x3]", lambda: ops.KronSum(D(S(10, "a")), D(S(10, "b")), D(S(10, "c"))))
        reg("BlockDiag[Kronecker2(8x8,8x8) x19, Diagonal]", lambda: ops.BlockDiag(ops.Kronecker(D(S(8, "a")), D(S(8, "b"))), ops.Diagonal(np.linspace(1., 2., 64)),
                                                                                   multiplicities=[19, 1]))
        reg("Kronecker2[Diagonal,Dense]", lambda: ops.Kronecker(ops.Diagonal(np.linspace(1., 2., 40)), D(S(30, "b"))))
        reg("Product[Diagonal,BlockDiag,ScalarMul]", lambda: ops.Diagonal(np.linspace(1., 2., 1200)) @ ops.BlockDiag(D(S(6, "a")), multiplicities=[200])
            @ ops.ScalarMul(2.0, (1200, 1200), dtype=np.float64))
        reg("Kronecker2[Kronecker2,Dense]", lambda: ops.Kronecker(ops.Kronecker(D(S(10, "a")), D(S(10, "b"))), D(S(12, "c"))))
    return out


def dense_bytes(A):
    return 8 * int(np.prod(A.shape)) * (2 if np.dtype(A.dtype).kind == "c" else 1)


def factor_bytes(A, tag=None):
    """sum of the dense sizes of the individual factors the call is entitled to materialise: the recursion descends into the
    factors of a composite only as long as the function has a structural rule for that composite (for plain products it always does:
    they are matrix-free at every level); a factor without a rule may be handled densely *as a factor*"""
    if isinstance(A, (ops.Diagonal, ops.Identity, ops.ScalarMul, ops.Permutation, ops.Tridiagonal)):
        return 8 * A.shape[0] * (3 if isinstance(A, ops.Tridiagonal) else 1)
    if isinstance(A, (ops.Kronecker, ops.KronSum, ops.BlockDiag, ops.Product, ops.Sum)):
        if tag in (None, "always", "rmatmat") or applicable(tag, A):
            return sum(factor_bytes(M, tag) for M in A.Ms)
    return dense_bytes(A)


def F(name):
    f = plum.dispatch.functions[name]
    if f._pending:
        f._resolve_pending_registrations()
    return f


def has_structural_rule(fname, A):
    """a registered signature of fname whose operator argument is a proper sub-kind of LinearOperator that A is an instance of"""
    for sig in F(fname)._resolver.signatures:
        for t in sig.types:
            try:
                if isinstance(t, type) and issubclass(t, ops.LinearOperator) and t is not ops.LinearOperator and isinstance(A, t):
                    if sig.condition is None or _cond_ok(sig, A):
                        return True
            except TypeError:
                continue
            origin_args = getattr(t, "__args__", None)
            if origin_args:  # Union types (Diagonal | ScalarMul)
                for u in origin_args:
                    if isinstance(u, type) and issubclass(u, ops.LinearOperator) and u is not ops.LinearOperator and isinstance(A, u):
                        return True
    return False


def _cond_ok(sig, A):
    try:
        return bool(sig.condition(A, None, None)) if sig.condition.__code__.co_flags & 0x04 else bool(sig.condition(A))
    except Exception:
        try:
            return bool(sig.condition(A))
        except Exception:
            return True


def entry_points():
    """name -> (function name in the rule table or None, callable(A, x))"""
    E = {}
    E["A@x"] = (None, lambda A, x: A @ x)
    E["A@X8"] = (None, lambda A, x: A @ np.stack([x] * 8, axis=1))
    E["x@A"] = ("rmatmat", lambda A, x: x @ A)
    for an, mk in (("omitted", lambda: ()), ("Auto", lambda: (L.Auto(), )), ("LU", lambda: (L.LU(), ))):
        E[f"inv({an})@b"] = ("inv", lambda A, x, mk=mk: L.inv(A, *mk()) @ x)
        E[f"solve({an})"] = ("inv", lambda A, x, mk=mk: L.solve(A, x, *mk()))
    E["inv(Cholesky)@b"] = ("inv", lambda A, x: L.inv(A, L.Cholesky()) @ x)
    for an, mk in (("omitted", lambda: ()), ("Auto", lambda: (L.Auto(), L.Auto())), ("LU", lambda: (L.LU(), L.Auto())), ("Cholesky", lambda: (L.Cholesky(), L.Auto()))):
        E[f"slogdet({an})"] = ("slogdet", lambda A, x, mk=mk: L.slogdet(A, *mk()))
        E[f"logdet({an})"] = ("slogdet", lambda A, x, mk=mk: L.logdet(A, *mk()))
    for an, mk in (("omitted", lambda: ()), ("Auto", lambda: (L.Auto(), )), ("Exact", lambda: (L.Exact(), ))):
        E[f"diag({an})"] = ("diag", lambda A, x, mk=mk: L.diag(A, 0, *mk()))
        E[f"trace({an})"] = ("diag+trace", lambda A, x, mk=mk: L.trace(A, *mk()))
    for an, mk in (("omitted", lambda: ()), ("Auto", lambda: (L.Auto(), )), ("Eig", lambda: (L.Eig(), )), ("Eigh", lambda: (L.Eigh(), ))):
        E[f"exp({an})@x"] = ("apply_unary|exp", lambda A, x, mk=mk: L.exp(A, *mk()) @ x)
        E[f"log({an})@x"] = ("apply_unary", lambda A, x, mk=mk: L.log(A, *mk()) @ x)
        E[f"sqrt({an})@x"] = ("apply_unary|pow", lambda A, x, mk=mk: L.sqrt(A, *mk()) @ x)
        E[f"isqrt({an})@x"] = ("apply_unary|pow", lambda A, x, mk=mk: L.isqrt(A, *mk()) @ x)
        E[f"pow2.5({an})@x"] = ("apply_unary|pow", lambda A, x, mk=mk: L.pow(A, 2.5, *mk()) @ x)
        E[f"pow3({an})@x"] = ("always", lambda A, x, mk=mk: L.pow(A, 3, *mk()) @ x)
        E[f"apply_unary(cos,{an})@x"] = ("apply_unary", lambda A, x, mk=mk: L.apply_unary(np.cos, A, *mk()) @ x)
    E["cholesky@x"] = ("cholesky", lambda A, x: cholesky(A) @ x)
    E["plu@x"] = ("plu", lambda A, x: [f @ x for f in plu(A)])
    return E


def applicable(tag, A):
    if tag is None or tag == "always":
        return True
    if tag == "rmatmat":
        if isinstance(A, (ops.Product, ops.Sum)):  # their left product delegates to the factors
            return all(applicable("rmatmat", M) for M in A.Ms)
        t = type(A)
        own = any("_rmatmat" in vars(c) for c in t.__mro__ if c is not ops.LinearOperator)
        return own or A.isa(cola.SelfAdjoint)
    if tag == "diag+trace":
        return has_structural_rule("diag", A) or has_structural_rule("trace", A)
    return any(has_structural_rule(f, A) for f in tag.split("|"))


def run_case(case, seed):
    opname, epname, tier = case
    vio = []
    with warnings.catch_warnings():
        warnings.simplefilter("ignore")
        A = operators(seed, tier)[opname]()
        tag, call = entry_points()[epname]
        kind = type(A).__name__.split("[")[0]
        missing = []
        if tag not in (None, "always", "rmatmat"):
            fn_of_ep = epname.split("(")[0].split("@")[0]
            for f in tag.replace("diag+trace", "diag|trace").split("|"):
                named = f in (fn_of_ep, ) or (f == "apply_unary" and fn_of_ep in ("log", "apply_unary")) or (f == "slogdet" and fn_of_ep in ("slogdet", "logdet")) \
                    or (f == "inv" and fn_of_ep in ("inv", "solve")) or (f == "pow" and fn_of_ep in ("sqrt", "isqrt", "pow2.5"))
                if named and kind in REQUIRED.get(f, []) and not has_structural_rule(f, A):
                    missing.append(f)
        if missing:
            return {"transitions": 1, "outcome": "rule-missing", "violations": [{
                "key": f"C19|structural-rule-missing|{kind}|{','.join(missing)}", "what": f"no structural rule registered for {missing} on {kind} "
                f"(the property names this pair): the generic dense fallback would take over", "detail": {"entry_point": epname, "operator": opname}}]}
        if not applicable(tag, A):
            return {"transitions": 0, "outcome": "no-structural-rule", "violations": [], "notes": {"lattice_points_without_rule": 1}}
        n = A.shape[0]
        x = np.linspace(-1.0, 1.0, n)
        width = 8 if epname == "A@X8" else 1
        base = width * x.nbytes + factor_bytes(A, tag)
        limit = 64 * base + 64 * 1024
        gc.collect()
        tracemalloc.start()
        try:
            start, _ = tracemalloc.get_traced_memory()
            tracemalloc.reset_peak()
            err = None
            import time
            t0 = time.time()
            try:
                out = call(A, x)
            except Exception as e:
                err = e
            wall = time.time() - t0
            _, peak = tracemalloc.get_traced_memory()
        finally:
            tracemalloc.stop()
        extra = peak - start
        ratio = extra / base
        if err is not None:
            if isinstance(err, (AssertionError, NotImplementedError)):
                return {"transitions": 1, "outcome": f"refused:{type(err).__name__}", "violations": [], "notes": {"refused_by_rule": 1}}
            vio.append({"key": f"C19|exc:{type(err).__name__}|{opname}|{epname}", "what": f"{epname} on {opname} raised {type(err).__name__}",
                        "detail": {"msg": str(err)[:300]}})
        elif extra > limit:
            vio.append({"key": f"C19|densified|{opname}|{epname}", "what": f"{epname} on {opname}: peak additional memory {extra} B = {ratio:.0f} x "
                        f"(operand + factors), full matrix would be {8 * n * n} B", "detail": {"peak_extra_bytes": int(extra), "base_bytes": int(base),
                                                                                               "limit_bytes": int(limit), "dense_bytes": 8 * n * n, "wall_s": round(wall, 3)}})
    return {"transitions": 1, "outcome": f"{opname}|{epname}|{'ok' if not vio else 'bad'}", "violations": vio,
            "notes": {"max_peak_over_base": {"max": float(ratio)}, "executed": 1},
            "sample_obs": {"peak_extra_bytes": int(extra), "base_bytes": int(base), "ratio": round(float(ratio), 2), "wall_s": round(wall, 3)}}


_DESC = {}


def cases(tier, seed):
    opsd = operators(seed, tier)
    eps = entry_points()
    out = [[o, e, tier] for o in opsd for e in eps]
    _DESC.update({"operators": list(opsd), "entry_points": len(eps), "lattice_points": len(out)})
    return out


def case_signature(case):
    return f"{case[0]}|{case[1]}"


def describe(tier, seed):
    return {
        "bound": "complete lattice {" + str(len(_DESC.get("operators", []))) + " structured operators with n = 1024..1296 built from small factors} x {"
                 + str(_DESC.get("entry_points")) + " entry points: A@x, A@X, x@A, inv/solve, slogdet/logdet, diag, trace, exp, log, sqrt, isqrt, pow, apply_unary, cholesky, plu; "
                 "each with the algorithm argument omitted, Auto() and explicit}; a point is executed iff the live rule table has a structural "
                 "rule for that (function, kind)",
        "alphabet": _DESC,
        "oracle": "tracemalloc peak - baseline <= 64 x (operand bytes + dense bytes of the individual factors) + 64 KiB",
    }
