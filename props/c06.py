"""C06 -- inv / solve return the solution of the linear system on every dispatch path."""
import hashlib
import warnings

import numpy as np

import cola
import cola.linalg as L
from cola import ops
from mc import invfam
from mc import payload as P
from mc.refmodel import coarse_signature, ref, subterms
from mc.termcheck import short
from mc.terms import build, to_source

PROPERTY = "C06"
ASSUMPTIONS = [
    "operators are invertible with cond <= ~250 (diagonally dominant / unimodular-like integer payloads)",
    "direct paths must reach a relative residual of 1e-9, CG / GMRES 100 x their tolerance; GMRES is run with max_iters >= n",
    "transpose / left-product of inv(A) are only required on the direct (non-iterative) paths",
    "NumPy backend only; harness shim as in C01",
]

ALGS = ["omitted", "Auto", "LU", "Cholesky", "CG", "GMRES_n", "GMRES_n3", "GMRES_default"]


def make_alg(name, n):
    return {"omitted": None, "Auto": L.Auto(), "LU": L.LU(), "Cholesky": L.Cholesky(), "CG": L.CG(tol=1e-10, max_iters=10 * n + 20),
            "GMRES_n": L.GMRES(tol=1e-10, max_iters=n), "GMRES_n3": L.GMRES(tol=1e-10, max_iters=n + 3),
            "GMRES_default": L.GMRES(tol=1e-10)}[name]


def is_psd_term(t):
    return t[0] == "Ann" and t[1] == "PSD"


def rel_res(M, x, b):
    x = np.asarray(x, dtype=np.complex128)
    r = M @ x - b
    den = np.linalg.norm(M, 2) * np.linalg.norm(x) + np.linalg.norm(b)
    return float(np.linalg.norm(r) / den) if den > 0 else 0.0


def run_case(case, seed):
    if case[0] == "TOL":
        return run_tol(case, seed)
    if case[0] == "AUTO":
        return run_auto(case, seed)
    term, algname = case
    R = ref(term, seed)
    M = R.mat
    n = M.shape[0]
    Minv = np.linalg.inv(M)
    iterative = algname in ("CG", "GMRES_n", "GMRES_n3", "GMRES_default")
    tol_res = 1e-8 if iterative else 1e-9
    lowp = any(x in ("f4", "c8") for s in subterms(term) for x in s[1:] if isinstance(x, str)) or any(
        s[0] == "Perm" and s[3] is None for s in subterms(term))
    if lowp:
        tol_res = 1e-4
    vio, ntr = [], 0
    sig = coarse_signature(term)
    h = hashlib.sha256()
    maxerr = 0.0

    def bad(obs, sym, detail):
        vio.append({"key": f"C06|{obs}|{sym}|{algname}|{sig}", "what": f"{obs} {sym} with alg={algname} on {sig}",
                    "detail": {**detail, "src": to_source(term), "alg": algname}})

    with warnings.catch_warnings():
        warnings.simplefilter("ignore")
        A = build(term, seed)
        alg = make_alg(algname, n)
        try:
            Ainv = L.inv(A) if alg is None else L.inv(A, alg)
        except Exception as e:
            ntr += 1
            if isinstance(e, AssertionError) and algname in ("Cholesky", "CG") and not A.isa(cola.PSD):
                return {"transitions": 1, "outcome": "refused-nonPSD", "violations": []}
            bad("inv()", f"exc:{type(e).__name__}", {"msg": str(e)[:300]})
            return {"transitions": ntr, "outcome": "exc", "violations": vio}
        rhs = [("b1", P.operand(seed, n, None, "f8", "c06b1") + 0.5), ("B2", P.operand(seed, n, 2, "f8", "c06B2") + 0.5),
               ("b1c", P.operand(seed, n, None, "c16", "c06bc") + (0.5 + 0.5j)), ("B1", P.operand(seed, n, 1, "f8", "c06B1") + 0.5)]
        for tag, b in rhs:
            for how in ("inv@b", "solve"):
                ntr += 1
                try:
                    b0 = b.copy()
                    x = (Ainv @ b) if how == "inv@b" else (L.solve(A, b) if alg is None else L.solve(A, b, make_alg(algname, n)))
                    x = np.asarray(x)
                    if x.shape != b.shape:
                        bad(f"{how}:{tag}", "shape", {"got": list(x.shape), "want": list(b.shape)})
                        continue
                    rr = rel_res(M, x, b.astype(np.complex128))
                    maxerr = max(maxerr, rr)
                    if not np.all(np.isfinite(x)) or rr > tol_res:
                        bad(f"{how}:{tag}", "residual", {"rel_residual": rr, "tol": tol_res, "x": short(x), "want": short(Minv @ b)})
                    if not np.array_equal(b, b0):
                        bad(f"{how}:{tag}", "rhs-mutated", {})
                    h.update(np.round(x, 6).tobytes())
                except Exception as e:
                    bad(f"{how}:{tag}", f"exc:{type(e).__name__}", {"msg": str(e)[:300]})
        # the same inverse operator applied again to right-hand sides of the same shape and dtype but very different norm (a lazy
        # iterative inverse must solve every product to the requested accuracy, whatever it solved before)
        for tag, scale in (("reuse-small", 2.0**-24), ("reuse-large", 2.0**20), ("reuse-tiny", 2.0**-40)):
            ntr += 1
            try:
                b = (P.operand(seed, n, None, "f8", "c06re" + tag) + 0.25) * scale
                x = np.asarray(Ainv @ b)
                rr = rel_res(M, x, b.astype(np.complex128))
                if x.shape != b.shape or not np.all(np.isfinite(x)) or rr > tol_res:
                    bad(f"inv@b:{tag}", "residual", {"rel_residual": rr, "tol": tol_res, "scale": scale})
            except Exception as e:
                bad(f"inv@b:{tag}", f"exc:{type(e).__name__}", {"msg": str(e)[:300]})
        ntr += 1
        try:
            Dn = np.asarray(Ainv.to_dense())
            err = float(np.max(np.abs(Dn - Minv)) / max(1e-300, np.max(np.abs(Minv))))
            maxerr = max(maxerr, err * 1e-2)
            if Dn.shape != Minv.shape or err > (1e-3 if lowp else 1e-7):
                bad("inv.to_dense", "value", {"rel_err": err, "got": short(Dn), "want": short(Minv)})
        except Exception as e:
            bad("inv.to_dense", f"exc:{type(e).__name__}", {"msg": str(e)[:300]})
        if not iterative:
            yl = P.operand(seed, n, 2, "c16", "c06y").T + 0.5
            checks = [("b@inv", lambda: yl @ Ainv, yl @ Minv), ("inv.T", lambda: Ainv.T.to_dense(), Minv.T),
                      ("inv.H", lambda: Ainv.H.to_dense(), Minv.conj().T), ("inv.T@b", lambda: Ainv.T @ rhs[2][1], Minv.T @ rhs[2][1])]
            for obs, fn, want in checks:
                ntr += 1
                try:
                    got = np.asarray(fn())
                    err = float(np.max(np.abs(got - want)) / max(1e-300, np.max(np.abs(want)))) if got.shape == want.shape else np.inf
                    if err > (1e-3 if lowp else 1e-7):
                        bad(obs, "value" if np.isfinite(err) else "shape", {"rel_err": err, "got": short(got), "want": short(want)})
                except Exception as e:
                    bad(obs, f"exc:{type(e).__name__}", {"msg": str(e)[:300]})
    return {"transitions": ntr, "outcome": h.hexdigest()[:12], "violations": vio, "notes": {"max_observed_error": {"max": maxerr}},
            "sample_obs": {"inv_type": type(Ainv).__name__.split("[")[0]}}


def run_auto(case, seed):
    """both sides of the automatic small/large switch at 10^6 entries: identity plus rank 3 (Krylov solvers end in <= 5 steps)"""
    _, n, psd, how = case
    g = P.rng(seed, "c06auto", n, psd)
    U = g.standard_normal((n, 3))
    W = U if psd else g.standard_normal((n, 3))
    b = g.standard_normal(n)

    def mm(X):
        return X + U @ (W.T @ X)

    A = ops.LinearOperator(np.float64, (n, n), matmat=mm)
    if psd:
        A = cola.PSD(A)
    vio = []
    with warnings.catch_warnings():
        warnings.simplefilter("ignore")
        try:
            x = np.asarray(L.inv(A) @ b if how == "inv" else L.solve(A, b))
            rr = float(np.linalg.norm(mm(x[:, None])[:, 0] - b) / (np.linalg.norm(b)))
            if not np.all(np.isfinite(x)) or rr > 1e-4:
                vio.append({"key": f"C06|auto-switch|residual|n={n},psd={psd},{how}", "what": f"Auto() on {n}x{n} {'PSD' if psd else 'general'}: residual {rr:.2e}",
                            "detail": {"rel_residual": rr}})
        except Exception as e:
            vio.append({"key": f"C06|auto-switch|exc:{type(e).__name__}|n={n},psd={psd},{how}", "what": f"Auto() on {n}x{n}: {type(e).__name__}",
                        "detail": {"msg": str(e)[:300]}})
    return {"transitions": 1, "outcome": f"auto:{n}:{psd}", "violations": vio}


def run_tol(case, seed):
    """the requested tolerance must reach the big factor through every structural rule: a 1001 x 1001 factor (beyond the automatic switch, so
    a dropped algorithm argument would fall back to CG / GMRES at the default 1e-6) with a spread spectrum (cond 100: ~130 CG steps to 1e-11)"""
    _, struct, algname, how = case
    n = 1001
    g = P.rng(seed, "c06tol", struct)
    d = g.permutation(np.linspace(1.0, 100.0, n))
    A = cola.PSD(ops.LinearOperator(np.float64, (n, n), matmat=lambda X: d[:, None] * X))
    Md = d
    small = np.array([[2.0, 1.0], [1.0, 3.0]])
    if struct == "scalar":
        S, apply = 2.5 * A, (lambda X: 2.5 * Md[:, None] * X)
    elif struct == "prod3":
        e = np.linspace(0.5, 2.0, n)
        S, apply = ops.Product(ops.Diagonal(e), A, ops.Diagonal(e)), (lambda X: e[:, None] * (Md[:, None] * (e[:, None] * X)))
    elif struct == "kron":
        S = ops.Kronecker(cola.PSD(ops.Dense(small)), A)
        apply = lambda X: np.einsum("ij,jkc->ikc", small, (Md[None, :, None] * X.reshape(2, n, -1))).reshape(2 * n, -1)  # noqa: E731
    elif struct == "blockdiag":
        S = ops.BlockDiag(cola.PSD(ops.Dense(small)), A, multiplicities=[1, 2])
        apply = lambda X: np.concatenate([small @ X[:2], Md[:, None] * X[2:2 + n], Md[:, None] * X[2 + n:]], 0)  # noqa: E731
    elif struct == "neg-transpose":
        S, apply = (-A).T, (lambda X: -Md[:, None] * X)
    else:
        raise ValueError(struct)
    if struct in ("kron", "blockdiag", "scalar", "prod3"):
        S = cola.PSD(S)
    N = S.shape[0]
    b = g.standard_normal((N, 2))
    tol = 1e-11
    alg = L.CG(tol=tol, max_iters=2000) if algname == "CG" else (L.GMRES(tol=tol, max_iters=400) if algname == "GMRES" else L.Auto(tol=tol, max_iters=2000))
    vio = []
    with warnings.catch_warnings():
        warnings.simplefilter("ignore")
        try:
            x = np.asarray(L.inv(S, alg) @ b if how == "inv" else L.solve(S, b, alg))
            rr = float(np.max(np.linalg.norm(apply(x) - b, axis=0) / np.linalg.norm(b, axis=0)))
            if not np.all(np.isfinite(x)) or rr > 100 * tol:
                vio.append({"key": f"C06|requested-tolerance|residual|{struct},{algname},{how}",
                            "what": f"{algname}(tol=1e-11) through the {struct} rule on a 1001 x 1001 factor: residual {rr:.2e}", "detail": {"rel_residual": rr}})
        except Exception as e:
            vio.append({"key": f"C06|requested-tolerance|exc:{type(e).__name__}|{struct},{algname},{how}", "what": f"{struct},{algname}: {type(e).__name__}",
                        "detail": {"msg": str(e)[:300]}})
    return {"transitions": 1, "outcome": f"tol:{struct}:{algname}", "violations": vio}


_DESC = {}


def cases(tier, seed):
    terms, info = invfam.terms(tier)
    out = []
    for t in terms:
        for a in ALGS:
            if a in ("Cholesky", "CG") and not is_psd_term(t):
                continue
            from mc.refmodel import size as _size
            if a == "GMRES_default" and (_size(t) > (0 if tier == "quick" else 1) or (tier == "thorough" and _size(t) == 1 and t[0] not in ("matmul", "kron", "T"))):
                continue  # max_iters=1000 allocates 1000 x 1000 Hessenberg systems: leaves only (thorough: also @, kron, T at depth 1)
            if tier == "quick" and _size(t) > 0 and a in ("Auto", "LU", "GMRES_n3"):
                continue  # quick: nestings with {omitted, Cholesky, CG, GMRES_n}; all 8 algorithms on the leaves
            if tier == "quick" and a == "GMRES_n3" and t[0] not in ("Dense", "Ann", "matmul", "kron", "Tri", "Diag", "Scalar", "Perm"):
                continue
            out.append([t, a])
    for n in (1000, 1001):
        for psd in (True, False):
            for how in ("inv", "solve"):
                out.append(["AUTO", n, psd, how])
    for struct in ("scalar", "prod3", "kron", "blockdiag", "neg-transpose"):
        for algname in ("CG", "Auto", "GMRES"):
            if algname == "GMRES" and struct not in (("scalar", ) if tier == "quick" else ("scalar", "prod3", "neg-transpose")):
                continue  # 400 Arnoldi steps on 1001 rows cost 6-8 s per column
            for how in ("inv", "solve"):
                out.append(["TOL", struct, algname, how])
    info["states"] = len(out)
    _DESC.update(info)
    return out


def case_signature(case):
    return str(case[:2])[:80]


def describe(tier, seed):
    return {
        "bound": "invertible terms: 40 leaves (every kind with an inverse rule, kinds without one, PSD/Unitary declarations), every "
                 "depth-1 nesting (T, H, -, 3 scalars, @, Product, kron, 3-factor Kronecker, BlockDiag with 3 multiplicity patterns)"
                 + (", capped depth-2 nestings" if tier == "thorough" else "") + " x algorithms " + ", ".join(ALGS)
                 + " x 4 right-hand sides x {inv@b, solve}; dense form, left product, transpose, adjoint on direct paths; "
                   "Auto switch at 1000x1000 / 1001x1001 (PSD and general); requested tolerance 1e-11 through the scalar / 3-factor product / Kronecker / "
                   "block-diagonal / negated-transpose rules on a 1001 x 1001 cond-100 factor with CG, Auto(tol) and GMRES",
        "alphabet": _DESC,
        "oracle": "relative residual <= 1e-9 (direct) / 1e-8 (CG, GMRES at tol 1e-10); inv(A).to_dense() vs numpy inverse of the reference (1e-7)",
        "exhaustive": not _DESC.get("depth2_cap_hit", False),
    }
