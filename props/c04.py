"""C04 -- rule selection is total and unambiguous for every kind / annotation / algorithm combination."""
import itertools
import warnings

import numpy as np
import plum
from plum.resolver import AmbiguousLookupError, NotFoundLookupError

import cola
import cola.linalg as L
import cola.linalg.svd.svd as svdmod
from cola import ops
from cola.linalg.decompositions.decompositions import LanczosSVD, cholesky, plu
from cola.linalg.eig.lobpcg import LOBPCG
from cola.linalg.inverse.pinv import LSTSQ
from cola.linalg.trace.diagonal_estimation import HutchPP
from mc import kinds

PROPERTY = "C04"
ASSUMPTIONS = [
    "the admitted algorithm classes per function are transcribed from the docstrings (table ADMITTED below)",
    "exceptions raised by the selected rule (e.g. CG refusing a non-PSD operator) are outside this property",
    "NumPy backend only; harness shim as in C01; ConvolveND (JAX only) is outside the lattice",
]

ANNOTATIONS = [None, "SelfAdjoint", "PSD", "Stiefel", "Unitary"]
ANN = {"SelfAdjoint": cola.SelfAdjoint, "PSD": cola.PSD, "Stiefel": cola.Stiefel, "Unitary": cola.Unitary}


def alg_instances(n):
    return {
        "Auto": lambda: L.Auto(), "CG": lambda: L.CG(tol=1e-8, max_iters=20), "GMRES": lambda: L.GMRES(tol=1e-8, max_iters=n + 2),
        "LU": lambda: L.LU(), "Cholesky": lambda: L.Cholesky(), "Lanczos": lambda: L.Lanczos(max_iters=n + 2, tol=1e-10),
        "Arnoldi": lambda: L.Arnoldi(max_iters=n, tol=1e-10), "Eig": lambda: L.Eig(), "Eigh": lambda: L.Eigh(),
        "Exact": lambda: L.Exact(), "Hutch": lambda: L.Hutch(tol=0.5, max_iters=2, key=1), "HutchPP": lambda: HutchPP(),
        "LSTSQ": lambda: LSTSQ(), "DenseSVD": lambda: svdmod.DenseSVD(), "LOBPCG": lambda: LOBPCG(max_iters=5),
        "PowerIteration": lambda: L.PowerIteration(max_iter=5), "LanczosSVD": lambda: LanczosSVD(max_iters=n + 2),
    }


# algorithm classes each function's documentation admits
ADMITTED = {
    "inv": ["Auto", "LU", "Cholesky", "CG", "GMRES"],
    "pinv": ["Auto", "LSTSQ", "CG"],
    "slogdet": ["Auto", "LU", "Cholesky", "Lanczos", "Arnoldi"],
    "diag": ["Auto", "Exact", "Hutch"],
    "trace": ["Auto", "Exact", "Hutch"],
    "apply_unary": ["Auto", "Eig", "Eigh", "Lanczos", "Arnoldi"],
    "exp": ["Auto", "Eig", "Eigh", "Lanczos", "Arnoldi"], "log": ["Auto", "Eig", "Eigh", "Lanczos", "Arnoldi"],
    "sqrt": ["Auto", "Eig", "Eigh", "Lanczos", "Arnoldi"], "isqrt": ["Auto", "Eig", "Eigh", "Lanczos", "Arnoldi"],
    "pow": ["Auto", "Eig", "Eigh", "Lanczos", "Arnoldi"],
    "eig": ["Auto", "Eig", "Eigh", "Arnoldi", "Lanczos", "PowerIteration", "LOBPCG"],
    "svd": ["Auto", "DenseSVD", "Lanczos", "LOBPCG"],
}
TRACE_ALGS = ["Auto", "Exact", "Hutch"]
FUNCS = ["dot", "add", "mul", "transpose", "adjoint", "kron", "kronsum", "inv", "pinv", "slogdet", "diag", "trace", "apply_unary",
         "exp", "log", "sqrt", "isqrt", "pow", "eig", "svd", "cholesky", "plu", "get_annotations"]


def composite_kinds(n, tok):
    """one-level nestings: every composite constructor over every base kind (both positions)"""
    base = kinds.base_kinds(n, tok)

    def dn(A, tag="cd"):
        return ops.Dense(kinds.spd(A.shape[0], tok, 0, tag))

    def dg(A):
        return ops.Diagonal(np.arange(1, A.shape[0] + 1).astype(A.dtype if not isinstance(A.dtype, type) else A.dtype))

    def mk(fn):
        return lambda t: (lambda: fn(t()))

    out = {}
    for kname, thunk in base.items():
        out[f"Product[{kname},Dense]"] = mk(lambda A: ops.Product(A, dn(A)))(thunk)
        out[f"Product[Dense,{kname}]"] = mk(lambda A: ops.Product(dn(A), A))(thunk)
        out[f"Sum[{kname},Dense]"] = mk(lambda A: ops.Sum(A, dn(A)))(thunk)
        out[f"Kronecker[{kname},Dense]"] = mk(lambda A: ops.Kronecker(A, base["Dense"]()))(thunk)
        out[f"Kronecker[Diagonal,{kname}]"] = mk(lambda A: ops.Kronecker(base["Diagonal"](), A))(thunk)
        out[f"KronSum[{kname},Dense]"] = mk(lambda A: ops.KronSum(A, base["Dense"]()))(thunk)
        out[f"BlockDiag[{kname},Dense]"] = mk(lambda A: ops.BlockDiag(A, base["Dense"](), multiplicities=[1, 2]))(thunk)
        out[f"Transpose[{kname}]"] = mk(lambda A: ops.Transpose(A))(thunk)
        out[f"Adjoint[{kname}]"] = mk(lambda A: ops.Adjoint(A))(thunk)
        out[f"Scaled[{kname}]"] = mk(lambda A: 2.0 * A)(thunk)
        out[f"Sliced[{kname}]"] = mk(lambda A: A[:, :])(thunk)
    return out


def build_kind(name, n, tok):
    b = kinds.base_kinds(n, tok)
    if name in b:
        return b[name]()
    return composite_kinds(n, tok)[name]()


def annotate(A, ann):
    return A if ann is None else ANN[ann](A)


def F(name):
    f = plum.dispatch.functions[name]
    if f._pending:
        f._resolve_pending_registrations()
    return f


def public(name):
    if name == "svd":
        return svdmod.svd
    if name == "cholesky":
        return cholesky
    if name == "plu":
        return plu
    if name in ("dot", "add", "mul", "transpose", "adjoint"):
        return getattr(cola.fns, name)
    if name in ("kron", "kronsum", "get_annotations"):
        return getattr(cola, name)
    return getattr(L, name)


def arg_tuples(fname, A, alg_name, n):
    """list of (label, args) for the resolver sweep: full argument tuples as the public wrappers build them, plus the
    short arities of functions that register defaults themselves"""
    algs = alg_instances(n)
    a = algs[alg_name]() if alg_name else None
    if fname in ("inv", "pinv"):
        return [("full", (A, a))]
    if fname == "slogdet":
        return [(f"trace={t}", (A, a, algs[t]())) for t in TRACE_ALGS]
    if fname == "diag":
        return [(f"k={k}", (A, k, a)) for k in (0, 1)]
    if fname == "trace":
        return [("full", (A, a))]
    if fname == "apply_unary":
        return [("full", (np.exp, A, a))]
    if fname in ("exp", "log", "sqrt", "isqrt"):
        return [("full", (A, a))] + ([("short", (A, ))] if alg_name == "Auto" else [])
    if fname == "pow":
        return [("full", (A, 0.5, a)), ("int", (A, 2, a))] + ([("short", (A, 0.5))] if alg_name == "Auto" else [])
    if fname in ("eig", "svd"):
        return [(f"{w}", (A, 1, w, a)) for w in ("LM", "SM")]
    raise ValueError(fname)


def execute(fname, A, alg_name, n):
    """the public calls made for one admitted tuple (omitted and explicit optional arguments)"""
    algs = alg_instances(n)
    a = algs[alg_name]()
    f = public(fname)
    b = np.ones(A.shape[-1], dtype=np.float64)
    calls = []
    if fname == "inv":
        calls = [lambda: f(A, a) @ b, lambda: L.solve(A, b, a)] + ([lambda: f(A) @ b] if alg_name == "Auto" else [])
    elif fname == "pinv":
        calls = [lambda: f(A, a) @ np.ones(A.shape[-2])] + ([lambda: f(A) @ np.ones(A.shape[-2])] if alg_name == "Auto" else [])
    elif fname == "slogdet":
        calls = [lambda t=t: f(A, a, algs[t]()) for t in ("Auto", "Exact")] + [lambda: L.logdet(A, a)]
        if alg_name == "Auto":
            calls.append(lambda: f(A))
    elif fname == "diag":
        calls = [lambda: f(A, 0, a), lambda: f(A, 1, a), lambda: f(A, alg=a)] + ([lambda: f(A), lambda: f(A, -1)] if alg_name == "Auto" else [])
    elif fname == "trace":
        calls = [lambda: f(A, a)] + ([lambda: f(A)] if alg_name == "Auto" else [])
    elif fname == "apply_unary":
        calls = [lambda: f(np.cos, A, a) @ b] + ([lambda: f(np.cos, A) @ b] if alg_name == "Auto" else [])
    elif fname in ("exp", "log", "sqrt", "isqrt"):
        calls = [lambda: f(A, a) @ b] + ([lambda: f(A) @ b] if alg_name == "Auto" else [])
    elif fname == "pow":
        calls = [lambda p=p: f(A, p, a) @ b for p in (0.5, 2, -1, 0)] + ([lambda: f(A, 0.5) @ b] if alg_name == "Auto" else [])
    elif fname == "eig":
        ks = [(1, "LM")] if alg_name == "PowerIteration" else [(1, "LM"), (1, "SM"), (A.shape[0], "LM")]
        calls = [lambda k=k, w=w: f(A, k, w, a) for k, w in ks]
        if alg_name == "Auto":
            calls += [lambda: f(A, 1), lambda: L.eigmax(A), lambda: L.eigmin(A)]
        else:
            calls += [lambda: L.eigmax(A, a)] + ([lambda: L.eigmin(A, a)] if alg_name != "PowerIteration" else [])
    elif fname == "svd":
        calls = [lambda k=k, w=w: f(A, k, w, a) for k, w in ((1, "LM"), (min(A.shape), "SM"))] + ([lambda: f(A, 1)] if alg_name == "Auto" else [])
    return calls


def classify(exc):
    if isinstance(exc, AmbiguousLookupError):
        return "AmbiguousLookupError"
    if isinstance(exc, NotFoundLookupError):
        return "NotFoundLookupError"
    return None


def run_case(case, seed):
    mode = case[0]
    vio, n, outcomes = [], 0, []
    notes = {}
    with warnings.catch_warnings():
        warnings.simplefilter("ignore")
        import logging
        logging.disable(logging.CRITICAL)
        if mode == "alg":  # (alg, fname, kind, ann, size, tok)
            _, fname, kind, ann, size, tok = case
            A0 = build_kind(kind, size, tok)
            A = annotate(A0, ann)
            all_algs = list(alg_instances(size))
            for alg_name in all_algs:
                admitted = alg_name in ADMITTED[fname]
                for label, args in arg_tuples(fname, A, alg_name, size):
                    n += 1
                    try:
                        sgn = F(fname)._resolver.resolve(args)
                        outcomes.append(f"{fname}:{sgn}")
                    except Exception as e:
                        c = classify(e)
                        if c == "AmbiguousLookupError" or (c == "NotFoundLookupError" and admitted):
                            vio.append({"key": f"C04|{fname}|{c}|resolve|{kind}|{alg_name}",
                                        "what": f"{fname}({kind}, alg={alg_name}) [{label}]: {c} in the resolver",
                                        "detail": {"ann": ann, "label": label, "msg": str(e)[:400]}})
                        elif c is None:
                            raise
                if not admitted:
                    continue
                for call in execute(fname, annotate(build_kind(kind, size, tok), ann), alg_name, size):
                    n += 1
                    try:
                        call()
                        outcomes.append("ok")
                    except Exception as e:
                        c = classify(e)
                        if c:
                            vio.append({"key": f"C04|{fname}|{c}|call|{kind}|{alg_name}",
                                        "what": f"{fname}({kind}, alg={alg_name}): {c} escaped the public call",
                                        "detail": {"ann": ann, "msg": str(e)[:400]}})
                        else:
                            notes[f"raised_by_selected_rule:{fname}:{type(e).__name__}"] = notes.get(
                                f"raised_by_selected_rule:{fname}:{type(e).__name__}", 0) + 1
        elif mode == "unary":  # transpose/adjoint/cholesky/plu/get_annotations/mul on one kind
            _, fname, kind, ann, size, tok = case
            A = annotate(build_kind(kind, size, tok), ann)
            argsets = {"transpose": [(A, )], "adjoint": [(A, )], "cholesky": [(A, )], "plu": [(A, )], "get_annotations": [(A, )],
                       "mul": [(A, c) for c in (2, 0.5, 1 + 2j, np.float32(2), np.array(2.), np.int64(3))]}[fname]
            for args in argsets:
                n += 2
                for how in ("resolve", "call"):
                    try:
                        if how == "resolve":
                            outcomes.append(f"{fname}:{F(fname)._resolver.resolve(args)}")
                        else:
                            if fname in ("transpose", "adjoint"):
                                (A.T if fname == "transpose" else A.H).shape
                            elif fname == "mul":
                                (args[1] * A), (A * args[1]), (A / (args[1] if args[1] != 0 else 1)), (-A)
                            elif fname == "get_annotations":
                                public(fname)(A)
                            else:
                                public(fname)(annotate(A, "PSD") if fname == "cholesky" else A)
                    except Exception as e:
                        c = classify(e)
                        if c:
                            vio.append({"key": f"C04|{fname}|{c}|{how}|{kind}|-", "what": f"{fname}({kind}): {c} ({how})",
                                        "detail": {"ann": ann, "msg": str(e)[:400]}})
                        elif how == "resolve":
                            raise
        elif mode == "binary":  # (fname, kindA, kindB, size, tok)
            _, fname, ka, kb, size, tok = case
            A, B = build_kind(ka, size, tok), build_kind(kb, size, tok)
            if A.shape != B.shape and fname in ("dot", "add"):
                B = ops.Dense(kinds.spd(A.shape[0], tok, 0, "bin")) if B.shape[0] < A.shape[0] else B
                if A.shape != B.shape:
                    A = ops.Kronecker(ops.Identity((B.shape[0] // A.shape[0], ) * 2, A.dtype), A) if B.shape[0] % A.shape[0] == 0 else A
            if A.shape != B.shape and fname in ("dot", "add"):
                return {"transitions": 0, "outcome": "shape-skip", "violations": [], "notes": {"binary_pairs_skipped_for_shape": 1}}
            for how in ("resolve", "call"):
                n += 1
                try:
                    if how == "resolve":
                        outcomes.append(f"{fname}:{F(fname)._resolver.resolve((A, B))}")
                    else:
                        out = {"dot": lambda: A @ B, "add": lambda: (A + B, A - B), "kron": lambda: cola.kron(A, B),
                               "kronsum": lambda: cola.kronsum(A, B)}[fname]()
                except Exception as e:
                    c = classify(e)
                    if c:
                        vio.append({"key": f"C04|{fname}|{c}|{how}|{ka.split('[')[0]},{kb.split('[')[0]}|-",
                                    "what": f"{fname}({ka}, {kb}): {c} ({how})", "detail": {"msg": str(e)[:400]}})
                    elif how == "resolve":
                        raise
        logging.disable(logging.NOTSET)
    return {"transitions": n, "outcome": sorted(set(outcomes)), "violations": vio, "notes": notes}


_DESC = {}
ALG_FUNCS = ["inv", "pinv", "slogdet", "diag", "trace", "apply_unary", "exp", "log", "sqrt", "isqrt", "pow", "eig", "svd"]
UNARY_FUNCS = ["transpose", "adjoint", "cholesky", "plu", "get_annotations", "mul"]
BINARY_FUNCS = ["dot", "add", "kron", "kronsum"]


def cases(tier, seed):
    n, tok = 2, "f8"
    base = list(kinds.base_kinds(n, tok))
    comp = list(composite_kinds(n, tok))
    found = {nm for nm, _ in kinds.all_operator_classes()}
    covered = {type(kinds.base_kinds(n, tok)[k]()).__name__.split("[")[0] for k in base}
    missing = sorted(found - covered - {"ConvolveND"})
    if missing:
        raise RuntimeError(f"operator classes the harness cannot construct (would stay outside the lattice): {missing}")
    out = []
    for fname in ALG_FUNCS:
        for kind in base:
            for ann in ANNOTATIONS:
                out.append(["alg", fname, kind, ann, n, tok])
        for kind in comp:
            for ann in (ANNOTATIONS if tier == "thorough" else [None]):
                out.append(["alg", fname, kind, ann, n, tok])
        if tier == "thorough":
            for kind in base:
                out.append(["alg", fname, kind, None, 3, "c16"] if kind in kinds.base_kinds(3, "c16") else ["alg", fname, kind, None, 3, "f8"])
    for fname in UNARY_FUNCS:
        for kind in base + comp:
            for ann in ANNOTATIONS:
                out.append(["unary", fname, kind, ann, n, tok])
    pool = base + (comp if tier == "thorough" else [k for k in comp if k.split("[")[1].startswith(("Dense", "Diagonal", "Identity", "Kronecker",
                                                                                                     "Product", "Sum", "KronSum"))])
    for fname in BINARY_FUNCS:
        for ka in pool:
            for kb in (pool if tier == "thorough" else base + [k for k in comp if k.endswith(("[Dense,Dense]", "[Dense]"))]):
                out.append(["binary", fname, ka, kb, n, tok])
    _DESC.update({"base_kinds": len(base), "composite_kinds": len(comp), "operator_classes_found": len(found),
                  "functions": FUNCS, "algorithm_classes": list(alg_instances(2)), "lattice_points": len(out)})
    return out


def case_signature(case):
    return "|".join(map(str, case[:4]))


def describe(tier, seed):
    return {
        "bound": "complete lattice: {13 algorithm-taking functions} x {all operator classes + one-level composites over every class} x "
                 "{none, SelfAdjoint, PSD, Stiefel, Unitary} x {all 17 algorithm classes (resolver); admitted ones executed} x "
                 "{omitted, explicit optional arguments}; unary combinators on every kind x annotation; binary combinators on kind pairs",
        "alphabet": _DESC, "admitted": ADMITTED,
        "oracle": "no AmbiguousLookupError for any tuple, no NotFoundLookupError for admitted tuples; both in the resolver and escaping "
                  "from the executed public call (nested dispatch on factors)",
    }
