"""C16 -- svd and pinv return a valid singular value decomposition and the pseudo-inverse."""
import hashlib
import warnings

import numpy as np

import cola.linalg as L
from cola import ops
from cola.linalg.inverse.pinv import LSTSQ
from cola.linalg.svd.svd import DenseSVD, svd
from mc import alphabet as AB
from mc import invfam
from mc import krylov as K
from mc import payload as P
from mc.refmodel import coarse_signature, ref
from mc.termcheck import short
from mc.terms import build, to_source

PROPERTY = "C16"
PAYLOAD_SEEDS = {"thorough": [0, 1, 2, 3]}  # the thorough tier repeats the whole enumeration for four payload seeds
ASSUMPTIONS = [
    "full-rank operators with prescribed singular values separated by >= 0.3 (cond <= ~20)",
    "a dense / structural rule asked for k < min(m, n) may return either all triplets (product = A) or the k requested ones (best rank-k "
    "approximation for 'LM'); a Krylov algorithm must return exactly k triplets",
    "Lanczos is run with max_iters >= dimension and tol 1e-12; LOBPCG is excluded (float32 scipy delegate, unkeyed randomness: C17)",
    "operator terms (every kind, depth <= 1): judged when the reference has full rank with cond <= 1e3; the rank-k part and the Lanczos "
    "algorithm are judged only when consecutive singular values differ by >= 1e-3 * sigma_max (counted otherwise); CG only for cond <= 30",
    "NumPy backend only",
]
SVD_ALGS = ["omitted", "Auto", "DenseSVD", "Lanczos"]
PINV_ALGS = ["omitted", "Auto", "LSTSQ", "CG"]


def matrix(m, n, cplx, seed):
    r = min(m, n)
    sig = 1.0 + 0.4 * np.arange(r)[::-1]
    U = K.unitary(seed, m, cplx, "c16U")[:, :r]
    V = K.unitary(seed, n, cplx, "c16V")[:, :r]
    M = (U * sig[None, :]) @ V.conj().T
    return (M if cplx else M.real), sig


def operator(spec, seed):
    kind = spec[0]
    if kind == "dense":
        _, m, n, c = spec[:4]
        M, sig = matrix(m, n, c, seed)
        f = {"": 1.0, "tiny": 2.0**-45, "huge": 2.0**40}[spec[4] if len(spec) > 4 else ""]  # the same matrix at another scale
        return ops.Dense(M * f), M * f, sig * f
    if kind == "Identity":
        n = spec[1]
        return ops.Identity((n, n), np.complex128 if spec[2] else np.float64), np.eye(n), np.ones(n)
    if kind == "Diagonal":
        n = spec[1]
        d = (1.0 + 0.5 * np.arange(n)) * np.where(np.arange(n) % 2 == 0, 1, -1)
        d = P.rng(seed, "c16diag", n).permutation(d)
        if spec[2]:
            d = d * np.exp(1j * np.linspace(0.2, 2.5, n))
        return ops.Diagonal(d), np.diag(d), np.sort(np.abs(d))[::-1]
    if kind == "ScalarMul":
        n = spec[1]
        c = (-1.5 + 2j) if spec[2] else -2.5
        return ops.ScalarMul(c, (n, n), dtype=np.complex128 if spec[2] else np.float64), c * np.eye(n), abs(c) * np.ones(n)
    if kind == "Permutation":
        n = spec[1]
        p = np.roll(np.arange(n), 1)
        return ops.Permutation(p, np.float64), np.eye(n)[p], np.ones(n)
    if kind == "herm":  # self-adjoint with prescribed eigenvalues; the largest singular values come from NEGATIVE eigenvalues when indefinite
        _, n, c, ann, definite = spec
        lam = (1.0 + 0.45 * np.arange(n)) * (1.0 if definite else 1.0) * (np.ones(n) if definite else np.where(np.arange(n) % 2 == (n - 1) % 2, -1.0, 1.0))
        lam = P.rng(seed, "c16herm", n).permutation(lam)
        M, _ = K.hermitian(seed, n, lam, c, "c16h")
        A = ops.Dense(M)
        import cola
        A = {"none": A, "SelfAdjoint": cola.SelfAdjoint(A), "PSD": cola.PSD(A)}[ann]
        return A, M, np.sort(np.abs(lam))[::-1]
    if kind == "term":
        t = spec[1]
        M = ref(t, seed).mat
        return build(t, seed), M, np.linalg.svd(M, compute_uv=False)
    raise ValueError(kind)


def term_family(tier):
    D = AB.D
    rect = [D(3, 2, "f8", "g"), D(2, 3, "c16", "g"), D(4, 2, "f8", "g"), D(1, 3, "f8", "g"), D(3, 1, "c16", "g"), D(2, 4, "f8", "g"),
            ["Generic", [3, 2], "f8", "g"], ["Sparse", [2, 3], "f8", "g"], ["Concat", [D(2, 2, "f8", "wc"), D(1, 2, "f8", "g")], 0],
            ["Concat", [D(2, 2, "c16", "wc"), D(2, 1, "f8", "g")], 1], ["slice", D(3, 3, "f8", "wc"), ["s", 0, 2, None], ["s", None, None, None]],
            ["slice", D(3, 3, "c16", "wc"), ["s", None, None, None], ["i", [2, 0]]]]
    L = AB.with_shapes(invfam.leaves() + rect)
    un = {"T": AB.UNARY["T"], "H": AB.UNARY["H"], "lmul": lambda a: [["lmul", "cj", a]], "NoDisp": AB.UNARY["NoDisp"]}
    bi = {"matmul": AB.BINARY["matmul"], "kron": AB.BINARY["kron"], "BlockDiag": lambda a, b: [["BlockDiag", [a, b], [2, 1]]], "add": AB.BINARY["add"]}
    if tier == "quick":
        pk = {repr(L[i][0]) for i in (1, 2, 12, 16, 23, 31)} | {repr(t) for t in rect[:6]}
        Lp = [(t, sh) for t, sh in L if repr(t) in pk]
        l1 = AB.grow([L], unary=un, binary={}, max_dim=16) + AB.grow([Lp], unary={}, binary=bi, max_dim=16)
    else:
        l1 = AB.grow([L], unary=un, binary=bi, max_dim=24)
    return [t for t, _ in L + l1]


def spec_class(spec):
    if spec[0] == "term":
        return "term:" + coarse_signature(spec[1])
    if spec[0] == "herm":
        return f"herm,{spec[3]},{'definite' if spec[4] else 'indefinite'},{'c' if spec[2] else 'r'}"
    if spec[0] == "dense":
        _, m, n, c = spec[:4]
        return f"dense,{'sq' if m == n else ('tall' if m > n else 'wide')},{'c' if c else 'r'}" + (f",{spec[4]}" if len(spec) > 4 else "")
    return f"{spec[0]},{'c' if spec[2] else 'r'}"


def run_large(case, seed):
    """beyond the automatic switch (1001 x 1001) Auto() selects Lanczos for svd and CG for pinv: identity plus rank 3 given by its matmat"""
    from mc import large
    _, what, algname = case
    n = 1001
    mm, Ul, Wl = large.lowrank_identity(seed, n, False, "c16")
    M = np.eye(n) + Ul @ Wl.T
    A = ops.LinearOperator(np.float64, (n, n), matmat=mm)
    # the adjoint product is needed by both routes: give the generic operator its exact left product through a Dense-free rmatmat
    A._rmatmat = lambda X: X + (X @ Ul) @ Wl.T
    vio = []

    def bad(sym, detail):
        vio.append({"key": f"C16|large-operator|{what}|{sym}|{algname}", "what": f"{what} on a 1001 x 1001 operator with {algname}: {sym}", "detail": detail})

    with warnings.catch_warnings():
        warnings.simplefilter("ignore")
        try:
            if what == "svd":
                sv = np.linalg.svd(M, compute_uv=False)
                for k in (1, 2):
                    U, S, V = svd(A, k, "LM") if algname == "omitted" else svd(A, k, "LM", L.Auto())
                    Ud, Sd, Vd = np.asarray(U.to_dense()), np.asarray(S.to_dense()), np.asarray(V.to_dense())
                    s_ = np.sort(np.abs(np.diag(Sd)))[::-1]
                    if Sd.shape != (k, k) or Ud.shape != (n, k) or Vd.shape != (n, k):
                        bad("shape", {"U": list(Ud.shape), "S": list(Sd.shape), "V": list(Vd.shape), "k": k})
                    elif np.max(np.abs(s_ - sv[:k])) > 1e-5 * sv[0]:
                        bad("not-the-requested-singular-values", {"got": s_.tolist(), "want": sv[:k].tolist(), "k": k})
                    elif np.max(np.abs(Ud.conj().T @ Ud - np.eye(k))) > 1e-6 or np.max(np.abs(Vd.conj().T @ Vd - np.eye(k))) > 1e-6:
                        bad("factors-not-orthonormal", {"k": k})
                    elif np.max(np.abs(M @ Vd - Ud @ Sd)) > 1e-4 * sv[0]:
                        bad("A-V-is-not-U-Sigma", {"err": float(np.max(np.abs(M @ Vd - Ud @ Sd))), "k": k})
            else:
                g = P.rng(seed, "c16largeb")
                b = g.standard_normal((n, 2))
                Ap = L.pinv(A) if algname == "omitted" else L.pinv(A, L.Auto())
                x = np.asarray(Ap @ b)
                want = np.linalg.solve(M, b)
                err = float(np.linalg.norm(x - want) / np.linalg.norm(want)) if x.shape == want.shape else np.inf
                if not np.isfinite(err) or err > 1e-4:
                    bad("not-the-least-squares-solution", {"rel_err": err})
        except Exception as e:
            bad(f"exc:{type(e).__name__}", {"msg": str(e)[:300]})
    return {"states": 1, "transitions": 3, "outcome": f"large:{what}:{len(vio)}", "violations": vio}


def run_case(case, seed):
    if case[0] == "LARGE":
        return run_large(case, seed)
    if case[0] == "pinv":
        return run_pinv(case, seed)
    _, spec, algname = case
    vio, ntr = [], 0
    h = hashlib.sha256()
    with warnings.catch_warnings():
        warnings.simplefilter("ignore")
        A, M, sig = operator(spec, seed)
        m, n = M.shape
        r = min(m, n)
        sv = np.linalg.svd(M, compute_uv=False)
        Uf, sf, Vhf = np.linalg.svd(M, full_matrices=False)
        is_term = spec[0] == "term"
        if is_term and (sv[0] == 0 or sv[-1] < 1e-3 * sv[0]):
            return {"states": 0, "transitions": 1, "outcome": "not-judged", "violations": [], "notes": {"terms_not_judged_rank_deficient_or_cond>1e3": 1}}
        gaps = np.abs(np.diff(sf)) >= 1e-3 * sv[0] if r > 1 else np.ones(0, bool)
        if is_term and algname == "Lanczos" and not np.all(gaps):
            return {"states": 0, "transitions": 1, "outcome": "not-judged", "violations": [], "notes": {"lanczos_not_judged_repeated_singular_values": 1}}
        for k in range(1, r + 1):
            for which in ("LM", "SM"):
                kc = "k=min" if k == r else "k<min"

                def bad(obs, sym, detail):
                    key = f"C16|svd|{obs}|{sym}|{algname}|{spec_class(spec)}|{which}|{kc}"
                    if not any(v["key"] == key for v in vio):
                        vio.append({"key": key, "what": f"svd {obs}: {sym} ({algname}, {spec_class(spec)}, {which}, {kc})",
                                    "detail": {**detail, "shape": [m, n], "k": k, "spec": spec, **({"src": to_source(spec[1])} if is_term else {})}})

                ntr += 1
                alg = {"omitted": None, "Auto": L.Auto(), "DenseSVD": DenseSVD(), "Lanczos": L.Lanczos(max_iters=max(m, n) + 2, tol=1e-12)}[algname]
                try:
                    U, S, V = svd(A, k, which) if alg is None else svd(A, k, which, alg)
                    Ud, Sd, Vd = np.asarray(U.to_dense()), np.asarray(S.to_dense()), np.asarray(V.to_dense())
                except Exception as e:
                    bad("call", f"exc:{type(e).__name__}", {"msg": str(e)[:300]})
                    continue
                if not all(np.all(np.isfinite(x)) for x in (Ud, Sd, Vd)):
                    bad("factors", "nonfinite", {})
                    continue
                j = Sd.shape[0]
                if Sd.shape != (j, j) or Ud.shape != (m, j) or Vd.shape != (n, j) or j not in (k, r):
                    bad("factors", "shape", {"U": list(Ud.shape), "S": list(Sd.shape), "V": list(Vd.shape), "expected_triplets": [k, r]})
                    continue
                if algname == "Lanczos" and spec[0] in ("dense", "herm") and j != k:
                    bad("factors", "krylov-did-not-return-k-triplets", {"returned": j})
                s = np.diag(Sd)
                if np.max(np.abs(Sd - np.diag(s)), initial=0.0) > 1e-12 * sv[0]:
                    bad("Sigma", "not-diagonal", {"S": short(Sd)})
                if np.any(np.abs(s.imag) > 1e-10 * sv[0]) or np.any(s.real < -1e-10 * sv[0]):
                    bad("Sigma", "negative-or-complex", {"sigma": [complex(x) for x in s]})
                if np.max(np.abs(Ud.conj().T @ Ud - np.eye(j))) > 1e-7:
                    bad("U", "not-orthonormal", {"err": float(np.max(np.abs(Ud.conj().T @ Ud - np.eye(j))))})
                if np.max(np.abs(Vd.conj().T @ Vd - np.eye(j))) > 1e-7:
                    bad("V", "not-orthonormal", {"err": float(np.max(np.abs(Vd.conj().T @ Vd - np.eye(j))))})
                rec = Ud @ Sd @ Vd.conj().T
                if j == r:
                    if np.max(np.abs(rec - M)) > 1e-7 * sv[0]:
                        bad("U S V^H", "does-not-reproduce-A", {"err": float(np.max(np.abs(rec - M))), "sigma": [complex(x) for x in s]})
                else:
                    idx = np.arange(k) if which == "LM" else np.arange(r - k, r)
                    best = (Uf[:, idx] * sf[idx][None, :]) @ Vhf[idx, :]
                    cut_ok = bool(gaps[k - 1] if which == "LM" else gaps[r - k - 1])
                    if np.max(np.abs(np.sort(np.abs(s)) - np.sort(sf[idx]))) > 1e-6 * sv[0]:
                        bad("Sigma", "not-the-requested-singular-values", {"sigma": [complex(x) for x in s], "want": sf[idx].tolist()})
                    elif cut_ok and np.max(np.abs(rec - best)) > 1e-6 * sv[0]:
                        bad("U S V^H", "not-the-rank-k-part", {"err": float(np.max(np.abs(rec - best)))})
                h.update(np.round(np.sort(np.abs(s)), 5).tobytes())
    return {"states": 2 * r, "transitions": ntr * 6, "outcome": h.hexdigest()[:12], "violations": vio}


def run_pinv(case, seed):
    _, spec, algname = case
    vio, ntr = [], 0
    h = hashlib.sha256()
    with warnings.catch_warnings():
        warnings.simplefilter("ignore")
        A, M, sig = operator(spec, seed)
        m, n = M.shape
        if spec[0] == "term" and (sig[0] == 0 or sig[-1] < 1e-3 * sig[0] or (algname == "CG" and sig[-1] < sig[0] / 30)):
            return {"states": 0, "transitions": 1, "outcome": "not-judged", "violations": [],
                    "notes": {"pinv_terms_not_judged_rank_deficient_or_illconditioned": 1}}
        Mp = np.linalg.pinv(M)
        g = P.rng(seed, "c16rhs", m, n)
        cplx = np.iscomplexobj(M)
        rhs = [("b1", g.standard_normal(m)), ("B2", g.standard_normal((m, 2))), ("b1c", g.standard_normal(m) + 1j * g.standard_normal(m))]
        if m > n:
            rhs.append(("inconsistent", M @ g.standard_normal(n) + 3 * sig[0] * np.linalg.svd(M)[0][:, -1].real))  # both parts at the operator's scale
        tol = 1e-5 if algname == "CG" else 1e-8

        def bad(obs, sym, detail):
            vio.append({"key": f"C16|pinv|{obs}|{sym}|{algname}|{spec_class(spec)}", "what": f"pinv {obs}: {sym} ({algname}, {spec_class(spec)})",
                        "detail": {**detail, "shape": [m, n], "spec": spec, **({"src": to_source(spec[1])} if spec[0] == "term" else {})}})

        alg = {"omitted": None, "Auto": L.Auto(), "LSTSQ": LSTSQ(), "CG": L.CG(tol=1e-12, max_iters=200)}[algname]
        try:
            Ap = L.pinv(A) if alg is None else L.pinv(A, alg)
        except Exception as e:
            bad("call", f"exc:{type(e).__name__}", {"msg": str(e)[:300]})
            return {"transitions": 1, "outcome": "exc", "violations": vio}
        if tuple(Ap.shape) != (n, m):
            bad("shape", "shape", {"got": list(Ap.shape), "want": [n, m]})
        for tag, b in rhs:
            ntr += 1
            want = Mp @ b
            try:
                x = np.asarray(Ap @ b)
            except Exception as e:
                bad(f"@{tag}", f"exc:{type(e).__name__}", {"msg": str(e)[:300]})
                continue
            if x.shape != want.shape:
                bad(f"@{tag}", "shape", {"got": list(x.shape), "want": list(want.shape)})
                continue
            err = float(np.linalg.norm(x - want) / max(np.linalg.norm(want), 1e-300))
            if not np.all(np.isfinite(x)) or err > tol:
                bad(f"@{tag}", "not-the-minimum-norm-least-squares-solution", {"rel_err": err, "got": short(x), "want": short(want)})
            h.update(np.round(x, 5).tobytes())
    return {"states": 1, "transitions": max(ntr, 1), "outcome": h.hexdigest()[:12], "violations": vio}


_DESC = {}


def cases(tier, seed):
    shapes = [(m, n) for m in range(1, 6) for n in range(1, 6)] + [(8, 3), (3, 8)] + ([(20, 20), (12, 7), (7, 12), (6, 6), (9, 2), (2, 9), (30, 5), (5, 30), (16, 15)] if tier == "thorough" else [])
    specs = [["dense", m, n, c] for (m, n) in shapes for c in (False, True)]
    specs += [["dense", m, n, c, sc] for (m, n) in ((3, 3), (5, 3), (3, 5), (8, 3)) for c in (False, True) for sc in ("tiny", "huge")]
    herm = [["herm", n, c, ann, definite] for n in ((1, 2, 3, 5, 6) if tier == "quick" else (1, 2, 3, 4, 5, 6, 9, 14)) for c in (False, True)
            for ann, definite in (("none", False), ("SelfAdjoint", False), ("SelfAdjoint", True), ("PSD", True))]
    specs += herm
    struct = [["Identity", 3, False], ["Identity", 2, True], ["Diagonal", 4, False], ["Diagonal", 3, True]]
    out = []
    for sp in specs + struct:
        for a in SVD_ALGS:
            out.append(["svd", sp, a])
    pstruct = struct + [["ScalarMul", 3, False], ["ScalarMul", 2, True], ["Permutation", 4, False]]
    for sp in specs + pstruct:
        for a in PINV_ALGS:
            out.append(["pinv", sp, a])
    for what in ("svd", "pinv"):
        for a in (("omitted", ) if tier == "quick" else ("omitted", "Auto")):
            out.append(["LARGE", what, a])
    tf = term_family(tier)
    for t in tf:
        for a in SVD_ALGS:
            out.append(["svd", ["term", t], a])
        for a in PINV_ALGS:
            out.append(["pinv", ["term", t], a])
    _DESC.update({"self_adjoint_families": len(herm), "operator_terms": len(tf), "shapes": len(shapes), "svd_operators": len(specs) + len(struct), "pinv_operators": len(specs) + len(pstruct), "work_items": len(out)})
    return out


def case_signature(case):
    if case[0] == "LARGE":
        return ",".join(map(str, case))
    return f"{case[0]},{spec_class(case[1])},{case[2]}"


def describe(tier, seed):
    return {
        "bound": "a 1001 x 1001 identity-plus-rank-3 operator beyond the automatic switch (svd k = 1, 2 and pinv with the default algorithm); m x n in {1..5}^2 plus 8x3, 3x8 (four shapes also at scale 2^-45 and 2^40)" + (", 6x6, 9x2, 2x9, 12x7, 7x12, 16x15, 20x20, 30x5, 5x30" if tier == "thorough" else "") + ", real and complex, prescribed singular "
                 "values; self-adjoint dense operators (indefinite with the dominant singular value from a negative eigenvalue, definite; declared SelfAdjoint / PSD / undeclared); Identity, Diagonal (negative / complex entries), ScalarMul, Permutation; operator terms of every kind (invertible family + rectangular Dense / Generic / Sparse / Concatenated / Sliced leaves, "
                 "depth-1 nesting with T, H, scalar, no_dispatch, +, @, kron, BlockDiag); svd: ALL 1<=k<=min(m,n) x {LM, SM} x {omitted, Auto, "
                 "DenseSVD, Lanczos}; pinv: {omitted, Auto, LSTSQ, CG} x right-hand sides {1-D, 2 columns, complex, inconsistent (tall)}",
        "alphabet": _DESC,
        "oracle": "U^H U = I, V^H V = I, Sigma diagonal and >= 0; all triplets: U S V^H = A; k triplets: the requested singular values and the "
                  "corresponding rank-k part; pinv(A) b = numpy.linalg.pinv(reference) b (1e-8 dense, 1e-5 CG)",
    }
