"""C07 -- slogdet / logdet equal the determinant's phase and log-magnitude."""
import hashlib
import warnings

import numpy as np

import cola
import cola.linalg as L
from cola import ops
from mc import invfam
from mc import payload as P
from mc.refmodel import coarse_signature, is_complex_term, ref, size
from mc.terms import build, to_source

PROPERTY = "C07"
ASSUMPTIONS = [
    "non-singular operators with cond <= ~250; the determinant of the reference matrix comes from numpy.linalg.slogdet "
    "(cross-checked with an exact fraction-free Bareiss determinant for integer payloads)",
    "direct paths are held to 1e-9 relative, Lanczos / Arnoldi with max_iters >= n and an exact trace to 1e-6",
    "for real operators the sign may be returned in a complex dtype as long as its value is +1 or -1 to 1e-9",
    "NumPy backend only; harness shim as in C01",
]

ALGS = ["omitted", "Auto", "LU", "Cholesky", "Lanczos", "Arnoldi"]


def bareiss_det(M):
    """exact determinant of an integer matrix (fraction-free elimination)"""
    A = [[int(round(x)) for x in row] for row in M]
    n = len(A)
    sign, prev = 1, 1
    for k in range(n - 1):
        if A[k][k] == 0:
            p = next((i for i in range(k + 1, n) if A[i][k] != 0), None)
            if p is None:
                return 0
            A[k], A[p] = A[p], A[k]
            sign = -sign
        for i in range(k + 1, n):
            for j in range(k + 1, n):
                A[i][j] = (A[i][j] * A[k][k] - A[i][k] * A[k][j]) // prev
        prev = A[k][k]
    return sign * A[n - 1][n - 1]


def call(A, algname, n, fn):
    f = L.slogdet if fn == "slogdet" else L.logdet
    if algname == "omitted":
        return f(A)
    if algname == "Auto":
        return f(A, L.Auto(), L.Auto())
    if algname == "LU":
        return f(A, L.LU(), L.Auto())
    if algname == "Cholesky":
        return f(A, L.Cholesky(), L.Auto())
    if algname == "Lanczos":
        return f(A, L.Lanczos(max_iters=n + 2, tol=1e-12), L.Exact())
    if algname == "Arnoldi":
        return f(A, L.Arnoldi(max_iters=n, tol=1e-12), L.Exact())
    raise ValueError(algname)


def big_operator(kind, n, scale, seed):
    """operators whose determinant leaves the double range (|log|det|| > 745) although every entry is moderate"""
    from cola import ops
    from mc import payload as P
    g = P.rng(seed, "c07big", kind, n)
    if kind == "Dense":
        M = (P.ints(g, (n, n), -1, 1) + (n // 8 + 2) * np.diag(np.where(g.integers(0, 2, size=n) == 1, 1.0, -1.0))) * scale
        return ops.Dense(M), M
    if kind == "DenseC":
        M = (P.ints(g, (n, n), -1, 1, cplx=True) + (n // 8 + 2) * np.diag(np.exp(1j * g.uniform(0, 6.28, size=n)))) * scale
        return ops.Dense(M), M
    if kind == "PSD":
        B = P.ints(g, (n, n), -1, 1) / np.sqrt(n)
        M = (B @ B.T + np.eye(n)) * scale
        return cola.PSD(ops.Dense(M)), M
    if kind == "Triangular":
        M = np.tril(P.ints(g, (n, n), -1, 1) + 3 * np.diag(np.where(g.integers(0, 2, size=n) == 1, 1.0, -1.0))) * scale
        return ops.Triangular(M, lower=True), M
    if kind == "Diagonal":
        d = P.ints(g, (n, ), 1, 3) * np.where(g.integers(0, 2, size=n) == 1, 1.0, -1.0) * scale
        return ops.Diagonal(d), np.diag(d)
    if kind == "ScalarMul":
        return ops.ScalarMul(-scale, (n, n), dtype=np.float64), -scale * np.eye(n)
    if kind == "Product":
        A, MA = big_operator("Dense", n, scale, seed)
        B, MB = big_operator("Triangular", n, 1.0, seed + 1)
        return A @ B, MA @ MB
    if kind == "Kronecker":
        A, MA = big_operator("Dense", n // 20, scale, seed)
        B, MB = big_operator("Diagonal", 20, 1.0, seed + 1)
        return ops.Kronecker(A, B), np.kron(MA, MB)
    if kind == "BlockDiag":
        A, MA = big_operator("Dense", n // 20, scale, seed)
        from scipy.linalg import block_diag
        return ops.BlockDiag(A, multiplicities=[20]), block_diag(*([MA] * 20))
    raise ValueError(kind)


def run_big(case, seed):
    _, kind, n, scale, algname = case
    vio = []
    with warnings.catch_warnings():
        warnings.simplefilter("ignore")
        A, M = big_operator(kind, n, scale, seed)
        sgn_ref, lad_ref = np.linalg.slogdet(M)
        try:
            s, ld = call(A, algname, n, "slogdet")
            s_c, ld_c = complex(np.asarray(s).reshape(-1)[0] if np.ndim(s) else s), complex(np.asarray(ld).reshape(-1)[0] if np.ndim(ld) else ld)
            ok = np.isfinite(s_c) and np.isfinite(ld_c) and abs(abs(s_c) - 1) < 1e-9 and abs(s_c - complex(sgn_ref)) < 1e-7 \
                and abs(ld_c - lad_ref) < 1e-9 * max(1.0, abs(lad_ref))
            if not ok:
                vio.append({"key": f"C07|extreme-determinant|value|{algname}|{kind}", "what": f"slogdet wrong for a determinant outside the double range "
                            f"({kind}, n={n}, log|det|={lad_ref:.1f})", "detail": {"sign": s_c, "logabs": ld_c, "want_sign": complex(sgn_ref), "want_logabs": float(lad_ref)}})
        except Exception as e:
            if not (isinstance(e, AssertionError) and algname == "Cholesky" and kind != "PSD"):
                vio.append({"key": f"C07|extreme-determinant|exc:{type(e).__name__}|{algname}|{kind}", "what": f"slogdet raised ({kind}, n={n})", "detail": {"msg": str(e)[:300]}})
    return {"transitions": 3, "outcome": f"big:{kind}:{algname}:{round(float(lad_ref))}", "violations": vio}


def run_spec(case, seed):
    """operators with a prescribed REAL spectrum of both signs (complex and real, Hermitian and non-normal with well-conditioned eigenvectors):
    the Krylov paths take log through an eigendecomposition per probe vector, and every negative eigenvalue must land on the same branch"""
    from mc import krylov as K
    _, kind, n, algname = case
    lam = (1.5 + 1.25 * np.arange(n)) * np.where(np.arange(n) % 2 == 0, -1.0, 1.0)  # -1.5, 2.75, -4, ...
    lam = P.rng(seed, "c07spec", n).permutation(lam) * 7.0
    if kind == "psd-diagonal-generic":
        # a diagonal matrix known only through its matmat and declared PSD: every probe of the exact trace is an exact eigenvector, so each
        # column of the batched Krylov run exhausts its space after one step
        lam = np.abs(lam)
        M = np.diag(lam)
        if n >= 3:  # ... next to a dense block, whose probes go on: the exhausted columns must stay harmless while the others continue
            M = M.copy()
            M[1:, 1:], _ = K.hermitian(seed, n - 1, lam[1:], False, "c07m")
    elif kind == "herm-c":
        M, _ = K.hermitian(seed, n, lam, True, "c07h")
    elif kind == "sym-r":
        M, _ = K.hermitian(seed, n, lam, False, "c07s")
    elif kind == "gen-c":
        M, _ = K.diagonalizable(seed, n, lam, True, 3.0, "c07g")
    else:
        M, _ = K.diagonalizable(seed, n, lam, False, 3.0, "c07gr")
    A = ops.Dense(M)
    if kind == "psd-diagonal-generic":
        A = cola.PSD(ops.LinearOperator(np.float64, (n, n), matmat=lambda X, Mm=M.copy(): Mm @ X))
    sgn_ref, lad_ref = (-1.0) ** int(np.sum(lam < 0)), float(np.sum(np.log(np.abs(lam))))
    vio = []
    with warnings.catch_warnings():
        warnings.simplefilter("ignore")
        try:
            s, ld = call(A, algname, n, "slogdet")
            s_c, ld_c = complex(np.asarray(s).reshape(-1)[0]), complex(np.asarray(ld).reshape(-1)[0])
            tol = 1e-6 if algname in ("Lanczos", "Arnoldi") else 1e-9
            if not (np.isfinite(s_c) and np.isfinite(ld_c)) or abs(s_c - sgn_ref) > 10 * tol or abs(ld_c - lad_ref) > tol * max(1.0, abs(lad_ref)):
                vio.append({"key": f"C07|prescribed-spectrum|value|{algname}|{kind}", "what": f"slogdet wrong for the prescribed-spectrum operator {kind} (n={n})",
                            "detail": {"sign": s_c, "logabs": ld_c, "want_sign": sgn_ref, "want_logabs": lad_ref, "eigenvalues": lam.tolist()}})
        except Exception as e:
            vio.append({"key": f"C07|prescribed-spectrum|exc:{type(e).__name__}|{algname}|{kind}", "what": f"slogdet raised ({kind}, n={n})", "detail": {"msg": str(e)[:300]}})
    return {"transitions": 2, "outcome": f"spec:{kind}:{n}:{algname}", "violations": vio}


def run_case(case, seed):
    if case[0] == "BIG":
        return run_big(case, seed)
    if case[0] == "SPEC":
        return run_spec(case, seed)
    term, algname = case
    R = ref(term, seed)
    M = R.mat
    n = M.shape[0]
    cplx = is_complex_term(term)
    sgn_ref, lad_ref = np.linalg.slogdet(M)
    if np.all(M == np.round(M.real)) and n <= 12 and np.max(np.abs(M)) < 1e6:  # integer payload: exact cross-check of the oracle itself
        d = bareiss_det(M.real)
        import math
        assert d != 0 and abs(math.log(abs(d)) - lad_ref) < 1e-8 and np.sign(d) == np.sign(sgn_ref.real), "reference determinant inconsistent"
    krylov = algname in ("Lanczos", "Arnoldi")
    tol = 1e-6 if krylov else 1e-9
    if algname == "Arnoldi":
        # log(A) is evaluated through an eigendecomposition of the projected matrix: only judged for well-conditioned eigenvectors
        # (the domain of the matrix-function property C09); nearly defective integer payloads of some seeds are counted, not judged
        worst = 0.0
        from mc.refmodel import subterms
        for sub in subterms(term):
            try:
                Ms = ref(sub, seed).mat
            except Exception:
                continue
            if Ms.shape[0] == Ms.shape[1]:
                worst = max(worst, float(np.linalg.cond(np.linalg.eig(Ms)[1])))
        if worst > 1e3:  # the factor-wise rules hand every square factor to the Arnoldi base case
            return {"transitions": 0, "outcome": "arnoldi-not-judged-illconditioned-eigenvectors", "violations": [],
                    "notes": {"arnoldi_not_judged_illconditioned_eigenvectors": 1}}
    vio = []
    sig = coarse_signature(term)

    def bad(obs, sym, detail):
        vio.append({"key": f"C07|{obs}|{sym}|{algname}|{sig}", "what": f"{obs}: {sym} with {algname} on {sig}",
                    "detail": {**detail, "src": to_source(term), "want_sign": complex(sgn_ref), "want_logabs": float(lad_ref), "n": n}})

    ntr = 0
    out = "?"
    with warnings.catch_warnings():
        warnings.simplefilter("ignore")
        A = build(term, seed)
        ntr += 1
        try:
            s, ld = call(A, algname, n, "slogdet")
        except Exception as e:
            if isinstance(e, AssertionError) and algname in ("Cholesky", "Lanczos") and not A.isa(cola.PSD if algname == "Cholesky" else cola.SelfAdjoint):
                return {"transitions": 1, "outcome": "refused", "violations": []}
            bad("slogdet", f"exc:{type(e).__name__}", {"msg": str(e)[:300]})
            return {"transitions": 1, "outcome": "exc", "violations": vio}
        try:
            s_c, ld_c = complex(np.asarray(s).reshape(-1)[0] if np.ndim(s) else s), complex(np.asarray(ld).reshape(-1)[0] if np.ndim(ld) else ld)
        except Exception as e:
            bad("slogdet", "not-scalar", {"sign": repr(s)[:100], "logabs": repr(ld)[:100]})
            return {"transitions": 1, "outcome": "exc", "violations": vio}
        ntr += 3
        if not np.isfinite(s_c) or not np.isfinite(ld_c):
            bad("slogdet", "nonfinite", {"sign": s_c, "logabs": ld_c})
        else:
            if abs(abs(s_c) - 1) > tol:
                bad("sign", "not-unit-modulus", {"sign": s_c})
            elif abs(s_c - complex(sgn_ref)) > max(tol, 1e-9) * 10:
                bad("sign", "wrong-phase", {"sign": s_c})
            if abs(ld_c.imag) > tol * max(1, abs(lad_ref)) or abs(ld_c.real - lad_ref) > tol * max(1.0, abs(lad_ref)):
                bad("logabs", "value", {"logabs": ld_c})
            if not cplx and abs(s_c.imag) > 1e-9:
                bad("sign", "complex-for-real-operator", {"sign": s_c})
        ntr += 1
        try:
            ld2 = call(build(term, seed), algname, n, "logdet")
            ld2 = complex(np.asarray(ld2).reshape(-1)[0] if np.ndim(ld2) else ld2)
            if not np.isfinite(ld2) or abs(ld2 - ld_c) > 1e-12 * max(1, abs(ld_c)) + (0 if not krylov else 1e-9):
                bad("logdet", "differs-from-slogdet", {"logdet": ld2, "logabs": ld_c})
        except Exception as e:
            bad("logdet", f"exc:{type(e).__name__}", {"msg": str(e)[:300]})
        out = f"{np.round(s_c, 6)}|{round(ld_c.real, 6)}"
    return {"transitions": ntr, "outcome": hashlib.sha256(out.encode()).hexdigest()[:12], "violations": vio}


_DESC = {}


def cases(tier, seed):
    terms, info = invfam.terms(tier)
    out = []
    for t in terms:
        psd = t[0] == "Ann" and t[1] == "PSD"
        for a in ALGS:
            if a in ("Cholesky", "Lanczos") and not psd:
                continue
            if a == "Arnoldi" and tier == "quick" and size(t) > 0 and t[0] not in ("kron", "matmul", "BlockDiag", "Kronecker", "T", "H"):
                continue
            out.append([t, a])
    # determinants far outside the double range (both tiny and huge): sizes 240-400, entries ~ 1/200 or ~ 200
    for kind in ("Dense", "DenseC", "PSD", "Triangular", "Diagonal", "ScalarMul", "Product", "Kronecker", "BlockDiag"):
        for n, scale in ((400, 1.0 / 256), (400, 256.0)) + (((240, 1.0 / 4096), ) if tier == "thorough" else ()):
            for a in ("omitted", "Auto", "LU") + (("Cholesky", ) if kind == "PSD" else ()):
                out.append(["BIG", kind, n, scale, a])
    for kind in ("herm-c", "sym-r", "gen-c", "gen-r"):
        for n in (2, 3, 4, 5):
            for a in ("omitted", "LU", "Arnoldi"):
                out.append(["SPEC", kind, n, a])
    for n in (2, 3, 5):
        for a in ("Lanczos", "Arnoldi", "omitted"):
            out.append(["SPEC", "psd-diagonal-generic", n, a])
    info["states"] = len(out)
    _DESC.update(info)
    return out


def case_signature(case):
    return str(case)[:80]


def describe(tier, seed):
    return {
        "bound": "dense operators with a prescribed real spectrum of both signs (complex Hermitian, real symmetric, complex / real non-normal; n = 2..5); 9 operator kinds of size 240-400 whose determinant lies outside the double range (|log|det|| > 745); the invertible term family of C06 (40 leaves incl. |det|<1 and >1, both signs / four phases, permutations of both parities, "
                 "scalar operators of sizes 1..4; all depth-1 nestings" + ("; capped depth-2" if tier == "thorough" else "")
                 + ") x (log_alg, trace_alg) in {omitted, (Auto, Auto), (LU, Auto), (Cholesky, Auto)*, (Lanczos, Exact)*, (Arnoldi, Exact)} (* PSD only)",
        "alphabet": _DESC,
        "oracle": "|sign| = 1, sign = phase of det(reference), logabs = log|det(reference)| (1e-9 direct, 1e-6 Krylov), logdet == logabs; "
                  "real operators: real-valued sign",
        "exhaustive": not _DESC.get("depth2_cap_hit", False),
    }
