"""C11 -- cholesky and plu return structured factors that reproduce the operator."""
import hashlib
import warnings

import numpy as np

import cola
from cola import ops
from cola.linalg.decompositions.decompositions import cholesky, plu
from mc import alphabet as AB
from mc.refmodel import coarse_signature, ref, size
from mc.termcheck import short
from mc.terms import build, to_source

PROPERTY = "C11"
PAYLOAD_SEEDS = {"thorough": [0, 1, 2, 3]}  # the thorough tier repeats the whole enumeration for four payload seeds
ASSUMPTIONS = [
    "cholesky inputs are Hermitian positive definite, plu inputs non-singular, cond <= ~1e3",
    "structure is asserted only where the property asserts it: Kronecker / BlockDiag input gives Kronecker / BlockDiag factors with the "
    "same number of factors and multiplicities",
    "NumPy backend only; harness shim as in C01",
]
D = AB.D


def pd_leaves():
    return [["Ann", "PSD", D(3, 3, "f8", "spd")], ["Ann", "PSD", D(2, 2, "c16", "spd")], D(2, 2, "f8", "spd"), D(3, 3, "c16", "spd"),
            ["Identity", 2, "f8"], ["Identity", 3, "c16"], ["Diag", 3, "f8", "pos"], ["Diag", 2, "f8", "pow4"],
            ["Ann", "PSD", ["Diag", 2, "f8", "pos"]], ["Scalar", "two", 2, "f8"], ["Scalar", "four", 3, "f8"], ["Scalar", "quarter", 1, "f8"],
            D(1, 1, "f8", "spd"), ["Ann", "PSD", ["Generic", [2, 2], "c16", "spd"]], ["Ann", "PSD", ["Tridiag", 3, "f8", "ddsym"]]]


def ns_leaves():
    return [D(2, 2, "f8", "wc"), D(3, 3, "c16", "wc"), D(3, 3, "f8", "wc"), D(2, 2, "f8", "wcs"), ["Identity", 2, "f8"], ["Identity", 3, "c16"],
            ["Diag", 3, "f8", "mixed"], ["Diag", 2, "c16", "mixed"], ["Diag", 2, "f8", "pos"], ["Scalar", "m3", 2, "f8"],
            ["Scalar", "cj", 2, "c16"], ["Scalar", "two", 3, "f8"], D(1, 1, "f8", "wc"), ["Generic", [3, 3], "f8", "wc"],
            ["Tridiag", 3, "c16", "dd"], ["Perm", 3, "cyc", "f8"], ["Tri", 3, "f8", False, "g"], ["Sparse", [3, 3], "f8", "dd"]]


BI = {"kron": AB.BINARY["kron"], "BlockDiag": lambda a, b: [["BlockDiag", [a, b], m] for m in ([1, 1], [2, 1], [1, 3])]}
TE = {"Kronecker3": AB.TERNARY["Kronecker3"]}


def family(leaves, tier):
    W = AB.with_shapes
    Lf = W(leaves)
    l1 = AB.grow([Lf], unary={}, binary=BI, ternary=TE, ternary_pool=Lf[:3] + Lf[4:5] + Lf[6:7] + Lf[9:10], max_dim=40)
    out = Lf + l1
    info = {"leaves": len(Lf), "depth1": len(l1)}
    pk = {repr(Lf[i][0]) for i in (0, 1, 4, 6, 9)}
    l2 = AB.grow([Lf, l1], unary={}, binary={"kron": BI["kron"], "BlockDiag": lambda a, b: [["BlockDiag", [a, b], [2, 1]]]}, max_dim=48,
                 partner=lambda a: repr(a) in pk, cap=(3000 if tier == "quick" else 40000))
    out += l2
    info["depth2"] = len(l2)
    return [t for t, _ in out], info


def perm_matrix_ok(Pd):
    return (np.all((Pd == 0) | (Pd == 1)) and np.all(Pd.sum(0) == 1) and np.all(Pd.sum(1) == 1))


def structure_ok(A, op):
    """Kronecker / BlockDiag *operator* (as built: cola.kron may fuse e.g. two Diagonals into one Diagonal) => same kind of
    factor with the same number of factors (and multiplicities)"""
    if isinstance(A, ops.Kronecker):
        if not isinstance(op, ops.Kronecker):
            return f"expected a Kronecker factor, got {type(op).__name__.split('[')[0]}"
        if len(op.Ms) != len(A.Ms):
            return f"Kronecker factor with {len(op.Ms)} factors, expected {len(A.Ms)}"
    if isinstance(A, ops.BlockDiag):
        if not isinstance(op, ops.BlockDiag):
            return f"expected a BlockDiag factor, got {type(op).__name__.split('[')[0]}"
        if len(op.Ms) != len(A.Ms) or list(op.multiplicities) != list(A.multiplicities):
            return f"BlockDiag factor with {len(op.Ms)} blocks / multiplicities {list(op.multiplicities)}, expected {len(A.Ms)} / {list(A.multiplicities)}"
    return None


def run_case(case, seed):
    which, term = case
    R = ref(term, seed)
    M = R.mat
    n = M.shape[0]
    scale = max(1.0, float(np.max(np.abs(M))))
    vio = []
    sig = coarse_signature(term)

    def bad(obs, sym, detail):
        vio.append({"key": f"C11|{which}|{obs}|{sym}|{sig}", "what": f"{which}: {obs} {sym} on {sig}", "detail": {**detail, "src": to_source(term)}})

    ntr = 0
    out = ""
    with warnings.catch_warnings():
        warnings.simplefilter("ignore")
        A = build(term, seed)
        try:
            if which == "cholesky":
                ntr += 4
                Lo = cholesky(A)
                Ld = np.asarray(Lo.to_dense())
                if Ld.shape != M.shape:
                    bad("L", "shape", {"got": list(Ld.shape)})
                else:
                    if not np.all(np.isfinite(Ld)):
                        bad("L", "nonfinite", {"got": short(Ld)})
                    elif np.max(np.abs(np.triu(Ld, 1)), initial=0.0) != 0.0:
                        bad("L", "not-lower-triangular", {"got": short(Ld)})
                    elif np.max(np.abs(Ld @ Ld.conj().T - M)) > 1e-10 * scale:
                        bad("L L^H", "value", {"err": float(np.max(np.abs(Ld @ Ld.conj().T - M))), "L": short(Ld), "want": short(M)})
                    st = structure_ok(A, Lo)
                    if st:
                        bad("L", "structure", {"why": st})
                out = type(Lo).__name__.split("[")[0]
            else:
                ntr += 6
                Pm, Lo, U = plu(A)
                Pd, Ld, Ud = (np.asarray(x.to_dense()) for x in (Pm, Lo, U))
                if not (Pd.shape == Ld.shape == Ud.shape == M.shape):
                    bad("PLU", "shape", {"got": [list(Pd.shape), list(Ld.shape), list(Ud.shape)]})
                else:
                    if not (np.all(np.isfinite(Ld)) and np.all(np.isfinite(Ud)) and np.all(np.isfinite(Pd))):
                        bad("PLU", "nonfinite", {"L": short(Ld), "U": short(Ud)})
                    else:
                        if not perm_matrix_ok(Pd):
                            bad("P", "not-a-permutation-matrix", {"got": short(Pd)})
                        if np.max(np.abs(np.triu(Ld, 1)), initial=0.0) != 0.0:
                            bad("L", "not-lower-triangular", {"got": short(Ld)})
                        if np.max(np.abs(np.tril(Ud, -1)), initial=0.0) != 0.0:
                            bad("U", "not-upper-triangular", {"got": short(Ud)})
                        err = float(np.max(np.abs(Pd @ Ld @ Ud - M)))
                        if err > 1e-10 * scale:
                            bad("P L U", "value", {"err": err, "want": short(M), "got": short(Pd @ Ld @ Ud)})
                    for nm, f in (("P", Pm), ("L", Lo), ("U", U)):
                        st = structure_ok(A, f)
                        if st:
                            bad(nm, "structure", {"why": st})
                out = "/".join(type(x).__name__.split("[")[0] for x in (Pm, Lo, U))
        except Exception as e:
            bad("call", f"exc:{type(e).__name__}", {"msg": str(e)[:300]})
    return {"transitions": max(ntr, 1), "outcome": out + hashlib.sha256(repr(term).encode()).hexdigest()[:6], "violations": vio}


_DESC = {}


def cases(tier, seed):
    pd, i1 = family(pd_leaves(), tier)
    ns, i2 = family(ns_leaves(), tier)
    _DESC.update({"cholesky": i1, "plu": i2})
    return [["cholesky", t] for t in pd] + [["plu", t] for t in ns]


def case_signature(case):
    return str(case)[:80]


def describe(tier, seed):
    return {
        "bound": "cholesky: 15 positive-definite leaves (Dense real/complex with and without PSD declaration, Identity, Diagonal, ScalarMul, "
                 "generic), plu: 18 non-singular leaves (incl. negative / complex Diagonal and ScalarMul); every Kronecker (2 and 3 factors of "
                 "unequal size) and BlockDiag (3 multiplicity patterns) nesting to depth 2",
        "alphabet": _DESC,
        "oracle": "L lower triangular with exact zeros, L L^H = reference (1e-10); P a 0/1 permutation matrix, L lower, U upper, P L U = "
                  "reference; Kronecker / BlockDiag inputs give Kronecker / BlockDiag factors with the same multiplicities",
    }
