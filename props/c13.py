"""C13 -- GMRES returns the residual-minimising iterate of its Krylov space."""
import hashlib
import warnings

import numpy as np

import cola.linalg as L
from cola import ops
from cola.linalg.inverse.gmres import gmres
from mc import krylov as K
from mc import payload as P
from mc.termcheck import short

PROPERTY = "C13"
PAYLOAD_SEEDS = {"thorough": [0, 1, 2, 3]}  # the thorough tier repeats the whole enumeration for four payload seeds
ASSUMPTIONS = [
    "well-conditioned operators (cond <= 1e3), n <= 150; the Krylov optimum is computed independently (exact rationals for real "
    "integer systems with n <= 6, fully re-orthogonalised float64 least squares otherwise)",
    "slack: (1 + 1e-6) * optimum + max(1e-9, 100 * tol) * ||r0||  (cola stops Arnoldi once the new direction is below tol)",
    "product cap: m block products for the Krylov basis plus one for the initial residual",
    "NumPy backend only; the batched Arnoldi path runs through the harness vmap shim",
]


class Counting:
    def __init__(self, M):
        self.M = M
        self.calls = 0
        self.cols = 0
        self.op = ops.LinearOperator(M.dtype, M.shape, matmat=self._mm)

    def _mm(self, X):
        self.calls += 1
        self.cols += X.shape[-1] if X.ndim > 1 else 1
        return self.M @ X


def family(fam, n, tok, seed):
    base, _, scale = fam.partition("@")  # "@tiny" / "@huge": the same operator family at scale 2^-45 / 2^40
    if scale:
        M, V, lam = family(base, n, tok, seed)
        f = {"tiny": 2.0**-45, "huge": 2.0**40}[scale]
        return M * f, V, (None if lam is None else lam * f)
    c = P.is_cplx(tok)
    if fam == "int":
        M = P.dense(seed, (n, n), tok, "wc").astype(np.complex128 if c else np.float64)
        return M, None, None
    if fam == "normal":
        g = P.rng(seed, "c13normal", n)
        lam = (2 + np.linspace(0, 3, n)) * np.exp(1j * np.linspace(-1.0, 1.0, n))
        A, Q = K.hermitian(seed, n, lam, True, "c13n")
        A = (Q * lam[None, :]) @ Q.conj().T
        return A, Q, lam
    if fam == "scaled":  # one direction 1000 times larger than the rest (cond ~ 1e3): genuine Hessenberg columns differ in size by 1e3
        g = P.rng(seed, "c13scaled", n, c)
        d = np.concatenate([[1000.0], 1.0 + np.arange(n - 1)])
        M = np.diag(d) + 0.1 * (g.standard_normal((n, n)) + (1j * g.standard_normal((n, n)) if c else 0))
        return M.astype(np.complex128 if c else np.float64), None, None
    if fam == "nonnormal":
        lam = np.linspace(1, 10, n) * np.where(np.arange(n) % 3 == 2, -1, 1)
        if c:
            lam = lam * np.exp(1j * np.linspace(0, 0.5, n))
        A, V = K.diagonalizable(seed, n, lam, c, 3.0, "c13nn")
        return A, V, lam
    raise ValueError(fam)


def rhs(bkind, M, V, n, tok, seed):
    c = np.iscomplexobj(M)
    g = P.rng(seed, "c13rhs", bkind, n, tok)
    rnd = lambda *s: g.standard_normal(s) + (1j * g.standard_normal(s) if c else 0)  # noqa: E731
    if bkind == "empty":  # a block of zero right-hand sides
        return np.zeros((n, 0), dtype=M.dtype), None
    if bkind == "rand1":
        return rnd(n), None
    if bkind == "lowp":  # a right-hand side in a NARROWER dtype than the operator: the solve runs in the promoted dtype
        return rnd(n, 2).astype(np.complex64 if c else np.float32), None
    if bkind == "intrhs":  # an integer right-hand side (norm not an integer)
        return P.ints(g, (n, ), -3, 3, nonzero=True).astype(np.int64), None
    if bkind == "rand3":
        return rnd(n, 3) * np.array([1e-3, 1.0, 1e3])[None, :], None
    if bkind == "e1":
        b = np.zeros(n, dtype=M.dtype)
        b[0] = 1
        return b, None
    if bkind == "zerocol":  # a zero column among non-zero ones
        B = rnd(n, 3)
        B[:, 1] = 0
        return B.astype(M.dtype), None
    if bkind == "mix2":  # heterogeneous batch: an eigenvector (breakdown after one step) next to a generic column
        v0 = V[:, 0] if V is not None else np.linalg.eig(M)[1][:, 0]
        B = np.stack([v0 * 2.0, rnd(n) + 0j], axis=1)
        if not c:
            if np.max(np.abs(B.imag)) > 1e-12:
                return rnd(n, 2), None
            B = B.real
        return B.astype(M.dtype), None
    d = {"eig1": 1, "deg2": 2, "deg3": 3}[bkind]
    d = min(d, n)
    b = V[:, :d] @ (1 + np.arange(d))
    if not c:
        b = b.real
    return b.astype(M.dtype), d


def min_residual(M, r0, m, exact):
    if exact:
        return float(np.sqrt(max(0.0, K.exact_min_residual_sq(M, r0, m))))
    return K.float_min_residual(M.astype(np.complex128), r0.astype(np.complex128), m)


def run_option(case, seed):
    """the two further switches of gmres(): use_triangular (Givens QR of the Hessenberg matrix) and use_householder (Householder Arnoldi); single
    right-hand side (the docstring restricts use_triangular to one), real and complex, every m in 1..n+2.  Keys are per switch and symptom."""
    _, opt, n, tok = case
    M, V, lam = family("nonnormal", n, tok, seed)
    g = P.rng(seed, "c13opt", n, tok)
    b = (g.standard_normal(n) + (1j * g.standard_normal(n) if np.iscomplexobj(M) else 0)).astype(M.dtype)
    vio, ntr = [], 0

    def bad(sym, detail):
        key = f"C13|option:{opt}|{sym}"
        if not any(v["key"] == key for v in vio):
            vio.append({"key": key, "what": f"gmres(..., {opt}=True): {sym}", "detail": {**detail, "n": n, "dtype": tok}})

    with warnings.catch_warnings():
        warnings.simplefilter("ignore")
        for m in range(1, n + 3):
            ntr += 1
            try:
                x, _ = gmres(ops.Dense(M), b.copy(), max_iters=m, tol=1e-12, **{opt: True})
                x = np.asarray(x)
            except Exception as e:
                bad(f"exc:{type(e).__name__}", {"msg": str(e)[:200], "m": m})
                continue
            if x.shape != b.shape or not np.all(np.isfinite(x)):
                bad("shape-or-nonfinite", {"m": m})
                continue
            res = float(np.linalg.norm(b - M @ x))
            opt_res = K.float_min_residual(M.astype(np.complex128), b.astype(np.complex128), m)
            if res > (1 + 1e-6) * opt_res + 1e-9 * np.linalg.norm(b):
                bad("not-the-residual-minimiser", {"m": m, "residual": res, "krylov_optimum": opt_res})
    return {"states": n + 2, "transitions": ntr, "outcome": f"opt:{opt}:{len(vio)}", "violations": vio}


def run_case(case, seed):
    if case[0] == "OPT":
        return run_option(case, seed)
    fam, n, tok, bkind, x0kind, tol, entry, ms = case
    M, V, lam = family(fam, n, tok, seed)
    b, deg = rhs(bkind, M, V, n, tok, seed)
    g = P.rng(seed, "c13x0", n, tok)
    x0 = None
    if x0kind == "rand":
        x0 = g.standard_normal(b.shape) + (1j * g.standard_normal(b.shape) if np.iscomplexobj(M) else 0)
        x0 = x0.astype(M.dtype)
    B = (b if b.ndim == 2 else b[:, None]).astype(np.result_type(b.dtype, M.dtype))
    X0 = np.zeros_like(B) if x0 is None else (x0 if x0.ndim == 2 else x0[:, None])
    R0 = B - M @ X0
    exact = fam == "int" and not np.iscomplexobj(M) and n <= 6
    vio, ntr = [], 0
    prev = None
    h = hashlib.sha256()
    maxratio = 0.0
    base = f"{fam},{'c' if np.iscomplexobj(M) else 'r'},{bkind},x0={x0kind},{entry},tol={tol}"

    def bad(check, m, detail):
        rel = "m<n" if m < n else ("m=n" if m == n else "m>n")
        key = f"C13|{check}|{base}|{rel}"
        if not any(v["key"] == key for v in vio):
            vio.append({"key": key, "what": f"{check} violated: {base} n={n} m={m}", "detail": {**detail, "n": n, "m": m, "case": case[:7]}})

    with warnings.catch_warnings():
        warnings.simplefilter("ignore")
        for m in ms:
            ntr += 1
            cnt = Counting(M)
            b_in, x0_in = b.copy(), (None if x0 is None else x0.copy())
            try:
                if entry == "gmres":
                    x, info = gmres(cnt.op, b_in, x0=x0_in, max_iters=m, tol=tol)
                else:
                    x = L.inv(cnt.op, L.GMRES(tol=tol, max_iters=m, x0=x0_in)) @ b_in
            except Exception as e:
                bad(f"exc:{type(e).__name__}", m, {"msg": str(e)[:300]})
                prev = None
                continue
            x = np.asarray(x)
            if x.shape != b.shape:
                bad("shape", m, {"got": list(x.shape), "want": list(b.shape)})
                prev = None
                continue
            if not np.array_equal(b_in, b) or (x0 is not None and not np.array_equal(x0_in, x0)):
                bad("input-mutated", m, {})
            Xm = x if x.ndim == 2 else x[:, None]
            res = np.linalg.norm(B - M @ Xm, axis=0)
            cur = []
            for j in range(B.shape[1]):
                r0n = float(np.linalg.norm(R0[:, j]))
                bn = float(np.linalg.norm(B[:, j]))
                slack = max(1e-9, 100 * tol) * r0n + 1e-10 * bn
                opt = min_residual(M, R0[:, j], m, exact)
                if tol > 1e-6:
                    # a large tolerance legitimately stops Arnoldi early (its test is relative to the size of H, not to r0), so the iterate is the
                    # minimiser over a shorter space: only the tolerance-free facts are judged (finite, never worse than x0, monotone in m)
                    if not np.isfinite(res[j]):
                        bad("nonfinite", m, {"column": j})
                    elif res[j] > r0n * (1 + 1e-8) + 1e-10 * bn:
                        bad("residual-exceeds-that-of-x0", m, {"column": j, "residual": float(res[j]), "r0": r0n})
                    elif prev is not None and res[j] > prev[j] * (1 + 1e-6) + 1e-9 * r0n:
                        bad("not-monotone-in-m", m, {"column": j, "residual": float(res[j]), "previous": float(prev[j])})
                    cur.append(res[j])
                    continue
                if not np.isfinite(res[j]) or res[j] > (1 + 1e-6) * opt + slack:
                    bad("not-minimal", m, {"column": j, "residual": float(res[j]), "krylov_optimum": opt, "r0": r0n, "x": short(Xm[:, j])})
                if res[j] > r0n * (1 + 1e-9) + slack:
                    bad("worse-than-x0", m, {"column": j, "residual": float(res[j]), "r0": r0n})
                if res[j] > r0n * (1 + 1e-8) + 1e-10 * bn:
                    # x0 itself lies in x0 + K_m: whatever the tolerance stops Arnoldi at, the minimiser cannot be worse (no tol-dependent slack)
                    bad("residual-exceeds-that-of-x0", m, {"column": j, "residual": float(res[j]), "r0": r0n})
                if prev is not None and res[j] > prev[j] * (1 + 1e-6) + slack:
                    bad("not-monotone-in-m", m, {"column": j, "residual": float(res[j]), "previous": float(prev[j])})
                full = m >= n or (deg is not None and m >= deg and x0 is None)
                if full and res[j] > max(1e-8, 1e3 * tol) * max(bn, r0n):
                    bad("not-converged-at-full-dimension", m, {"column": j, "residual": float(res[j]), "b": bn, "degree": deg})
                if opt > 0:
                    maxratio = max(maxratio, float(res[j] / (opt + slack)))
                cur.append(res[j])
            prev = cur
            if cnt.calls > m + 1:
                bad("too-many-products", m, {"block_products": cnt.calls, "cap": m + 1})
            h.update(np.round(res / (np.linalg.norm(R0, axis=0) + 1e-300), 8).tobytes())
    return {"states": len(ms), "transitions": ntr * 6, "outcome": h.hexdigest()[:12], "violations": vio,
            "notes": {"max_residual_over_optimum_plus_slack": {"max": maxratio}}}


_DESC = {}


def cases(tier, seed):
    out = []
    small = [1, 2, 3, 4, 5, 6]
    big = [8, 25, 60] if tier == "quick" else [8, 12, 25, 40, 60, 150]
    tols = [1e-12, 1e-6]
    for tok in ("f8", "c16"):
        for n in small:
            ms = list(range(1, n + 4))
            for bk in ("rand1", "rand3", "e1", "zerocol", "mix2", "lowp", "intrhs", "empty"):
                if bk == "mix2" and n < 2:
                    continue
                for x0k in ("none", "rand"):
                    for tol in tols:
                        for entry in ("gmres", "inv"):
                            out.append(["int", n, tok, bk, x0k, tol, entry, ms])
    fams = [("normal", "c16"), ("nonnormal", "f8"), ("nonnormal", "c16"), ("nonnormal@tiny", "f8"), ("normal@huge", "c16")]
    for tok in ("f8", "c16"):  # large tolerances and badly scaled operators: the stopping tolerance must not corrupt the least-squares step
        for fam in ("scaled", "nonnormal"):
            for n in (5, 8):
                for bk in ("rand1", "rand3"):
                    for x0k in ("none", "rand"):
                        for tol in (1e-4, 1e-3, 1e-2, 9e-2, 0.5):
                            out.append([fam, n, tok, bk, x0k, tol, "gmres", list(range(1, n + 3))])
        for n in (5, 8):
            for tol in (1e-12, 1e-6):
                for entry in ("gmres", "inv"):
                    out.append(["scaled", n, tok, "rand3", "none", tol, entry, list(range(1, n + 3))])
    for fam, tok in fams:
        for n in ([3, 5] + big):
            ms = list(range(1, n + 4)) if n <= 8 else sorted({1, 2, 5, 10, 25, n, n + 5})
            for bk in ("rand1", "rand3", "eig1", "deg2", "deg3", "zerocol", "mix2", "lowp", "intrhs"):
                for x0k in ("none", "rand"):
                    for tol in tols:
                        for entry in (("gmres", "inv") if n <= 25 else ("gmres", )):
                            if tier == "quick" and n > 8 and (tol == 1e-6 or entry == "inv") and bk not in ("rand1", "deg2", "mix2", "lowp"):
                                continue
                            out.append([fam, n, tok, bk, x0k, tol, entry, ms])
    for opt in ("use_triangular", "use_householder"):
        for n in (3, 5, 8):
            for tok in ("f8", "c16"):
                out.append(["OPT", opt, n, tok])
    _DESC.update({"groups": len(out), "runs": sum(len(c[-1]) for c in out if c[0] != "OPT"), "sizes": small + big})
    return out


def case_signature(case):
    return ",".join(map(str, case[:7]))  # (OPT cases have four fields)


def describe(tier, seed):
    return {
        "bound": "operators: integer nonsingular n=1..6 (real: exact rational optimum; complex), complex normal, real / complex "
                 "non-normal with prescribed eigenvectors (also at scale 2^-45 and 2^40), n in " + str(_DESC.get("sizes")) + "; right-hand sides: 1 column, 3 columns "
                 "(norms 1e-3, 1, 1e3), e1, eigenvector, minimal-polynomial degree 2 and 3, a zero column among non-zero ones, a heterogeneous batch (eigenvector + generic), float32 / complex64 columns on a double-precision operator, an integer vector; x0 in {none, random}; every m in 1..n+3 "
                 "(n<=8) / {1,2,5,10,25,n,n+5}; tol in {1e-12, 1e-6}; a badly scaled family (one direction 1000 x the rest) and tolerances 1e-4 ... 0.5 (the residual may never exceed that of x0); entry points gmres() and inv(A, GMRES()) @ b; "
                 "the switches use_triangular / use_householder of gmres() on one right-hand side, n in {3, 5, 8}, real and complex, every m in 1..n+2",
        "alphabet": _DESC,
        "oracle": "per column: residual <= (1+1e-6) * Krylov optimum + slack; <= initial residual; non-increasing in m; ~0 at m >= n or "
                  "minimal-polynomial degree; block products <= m + 1; inputs not mutated",
    }
