"""C18 -- operators are persistent values: inputs are never mutated, calls are repeatable, flatten/unflatten round-trips whatever was
constructed before.

(a) SEQ: explicit-state search over operation sequences on a pool of operators of every kind and caller-owned arrays; results flow forward
    (the operator / array returned by one step can be the operand of the next).  Every sequence is replayed on a fresh pool.
(b) REG: histories of first instantiation (the attribute registry is class level and filled by the first instance), each executed in a child
    forked from a process that has not constructed any operator; differential oracle: the probe result must equal that of the empty history.
"""
import hashlib
import inspect
import json
import os
import pickle
import warnings

import numpy as np

import cola
import cola.linalg as L
from cola import ops
from mc import payload as P
from mc.refmodel import ref
from mc.terms import Ctx, build

PROPERTY = "C18"
ASSUMPTIONS = [
    "\"longer sequences at random\" of the property text is replaced by exhaustive exploration: all sequences of <= 2 operations (thorough: also all "
    "chains of 3 in which every step consumes the previous result) over the alphabet below, each replayed on a fresh pool",
    "results are compared bit for bit: every enumerated operation is deterministic (keyed randomness)",
    "registry histories run in forked children of a process that never constructed an operator; NumPy backend only",
]
D = lambda r, c, tok="f8", var="g": ["Dense", [r, c], tok, var]  # noqa: E731

POOL_TERMS = {
    "Dense": ["Ann", "PSD", D(4, 4, "f8", "spd")],
    "DenseG": D(4, 4, "f8", "wc"),
    "DenseC": D(4, 4, "c16", "wc"),
    "Triangular": ["Tri", 4, "f8", True, "g"],
    "Diagonal": ["Diag", 4, "f8", "pos"],
    "Identity": ["Identity", 4, "f8"],
    "ScalarMul": ["Scalar", "two", 4, "f8"],
    "Permutation": ["Perm", 4, "cyc", "f8"],
    "Householder": ["House", 4, "f8", "g"],
    "Tridiagonal": ["Tridiag", 4, "f8", "ddsym"],
    "Sparse": ["Sparse", [4, 4], "f8", "dd"],
    "Kronecker": ["Kronecker", [D(2, 2, "f8", "spd"), ["Diag", 2, "f8", "pos"]]],
    "KronSum": ["KronSum", [D(2, 2, "f8", "spd"), D(2, 2, "f8", "spd")]],
    "BlockDiag": ["BlockDiag", [D(2, 2, "f8", "spd")], [2]],
    "Product": ["Product", [D(4, 4, "f8", "wc"), ["Diag", 4, "f8", "pos"]]],
    "ProductOfIdentities": ["Product", [["Identity", 4, "f8"], ["Identity", 4, "f8"]]],
    "Sum": ["Sum", [D(4, 4, "f8", "spd"), ["Diag", 4, "f8", "pos"]]],
    "Generic": ["Generic", [4, 4], "f8", "wc"],
    "Sliced": ["slice", D(5, 5, "f8", "spd"), ["s", 0, 4, None], ["s", 0, 4, None]],
    "Transpose": ["T", ["Generic", [4, 4], "f8", "wc"]],
}


class Pool:
    def __init__(self, seed, readonly=False, needed=None):
        self.seed = seed
        self.ops, self.refs, self.anns, self.owned = {}, {}, {}, {}
        for name, term in POOL_TERMS.items():
            if needed is not None and name not in needed:
                continue  # operators built from their own fresh arrays cannot be reached by a sequence that never names them
            ctx = Ctx(seed)
            A = build(term, seed, ctx)
            self.ops[name] = A
            self.refs[name] = ref(term, seed).mat
            self.anns[name] = frozenset(a.__name__ for a in A.annotations)
            for i, arr in enumerate(ctx.owned):
                self.owned[f"{name}.payload{i}"] = arr
        g = P.rng(seed, "c18pool")
        self.owned["x"] = g.standard_normal(4)
        self.owned["X"] = g.standard_normal((4, 2))
        self.owned["xc"] = g.standard_normal(4) + 1j * g.standard_normal(4)
        self.owned["y"] = g.standard_normal(4)
        self.owned["b"] = g.standard_normal(4)
        self.owned["x0"] = g.standard_normal(4)
        self.owned["v"] = g.standard_normal(4)
        self.owned["idx"] = np.array([2, 0], dtype=np.int64)
        if readonly:
            for a in self.owned.values():
                a.setflags(write=False)
        self.finger = {k: self.fp(a) for k, a in self.owned.items()}

    @staticmethod
    def fp(a):
        return (hashlib.sha256(np.ascontiguousarray(a).tobytes()).hexdigest()[:16], a.shape, a.strides, str(a.dtype), bool(a.flags.writeable))


def digest(x):
    h = hashlib.sha256()

    def rec(o):
        if isinstance(o, ops.LinearOperator):
            h.update(type(o).__name__.split("[")[0].encode() + str(tuple(o.shape)).encode() + str(np.dtype(o.dtype)).encode())
            h.update(",".join(sorted(a.__name__ for a in o.annotations)).encode())
            rec(np.asarray(o.to_dense()))
        elif isinstance(o, (tuple, list)):
            for y in o:
                rec(y)
        elif isinstance(o, dict) or o is None or callable(o):
            h.update(b"-")
        else:
            a = np.ascontiguousarray(np.asarray(o))
            h.update(str(a.dtype).encode() + str(a.shape).encode() + a.tobytes())

    rec(x)
    return h.hexdigest()[:16]


def _arr(pool, prev_arr, slot, default):
    if slot == "prev" and prev_arr is not None:
        return prev_arr
    return pool.owned[default]


# operation alphabet: name -> (needs: 'op' | 'op+vec' | 'op+mat' | 'op+op', function)
def _alphabet():
    from cola.linalg.decompositions.arnoldi import arnoldi
    from cola.linalg.decompositions.decompositions import cholesky, plu
    from cola.linalg.decompositions.lanczos import lanczos
    from cola.linalg.preconditioning.preconditioners import NystromPrecond
    from cola.linalg.svd.svd import svd
    A = {}
    A["A@x"] = ("op+vec", lambda A_, x, p: A_ @ x)
    A["x@A"] = ("op+vec", lambda A_, x, p: x @ A_)
    A["A@X"] = ("op+mat", lambda A_, X, p: A_ @ X)
    A["A@xc"] = ("op", lambda A_, _, p: A_ @ p.owned["xc"])
    A["A.T"] = ("op", lambda A_, _, p: A_.T)
    A["A.H"] = ("op", lambda A_, _, p: A_.H)
    A["to_dense"] = ("op", lambda A_, _, p: A_.to_dense())
    A["-A"] = ("op", lambda A_, _, p: -A_)
    A["2.5*A"] = ("op", lambda A_, _, p: 2.5 * A_)
    A["A+Diag"] = ("op", lambda A_, _, p: A_ + p.ops["Diagonal"])
    A["A@Diag"] = ("op", lambda A_, _, p: A_ @ p.ops["Diagonal"])
    A["Identity@A"] = ("op", lambda A_, _, p: p.ops["Identity"] @ A_)
    A["kron(A,Id2)"] = ("op", lambda A_, _, p: cola.kron(A_, ops.Identity((2, 2), np.float64)))
    A["PSD(A)"] = ("op", lambda A_, _, p: cola.PSD(A_))
    A["flatten-unflatten"] = ("op", lambda A_, _, p: (lambda fl: fl[1](fl[0]))(A_.flatten()))
    A["A[1,2]"] = ("op", lambda A_, _, p: A_[1, 2])
    A["A[2]"] = ("op", lambda A_, _, p: A_[2])
    A["A[idx,:]"] = ("op", lambda A_, _, p: A_[p.owned["idx"], :])
    A["A[1:3,::2]"] = ("op", lambda A_, _, p: A_[1:3, ::2])
    A["A[0:2,0:2]"] = ("op", lambda A_, _, p: A_[0:2, 0:2])
    A["A[idx,idx]"] = ("op", lambda A_, _, p: A_[p.owned["idx"], p.owned["idx"]])
    A["inv(A,CG())"] = ("op", lambda A_, _, p: L.inv(cola.PSD(A_), L.CG(tol=1e-10, max_iters=60)))
    A["inv(A,GMRES())"] = ("op", lambda A_, _, p: L.inv(A_, L.GMRES(tol=1e-10, max_iters=6)))
    A["exp(A,Lanczos())"] = ("op", lambda A_, _, p: L.exp(cola.PSD(A_), L.Lanczos(max_iters=6, tol=1e-12)))
    A["sqrt(A,Arnoldi())"] = ("op", lambda A_, _, p: L.sqrt(A_, L.Arnoldi(max_iters=4, tol=1e-12)))
    A["pinv(A,CG())"] = ("op", lambda A_, _, p: L.pinv(A_, L.CG(tol=1e-10, max_iters=60)))
    A["A.to(None,f8)"] = ("op", lambda A_, _, p: A_.to(None, np.float64) if not isinstance(A_, ops.Identity) else A_.to(None))
    A["inv(A)@b"] = ("op+vec", lambda A_, b, p: L.inv(A_) @ b)
    A["solve(A,b)"] = ("op+vec", lambda A_, b, p: L.solve(A_, b))
    A["inv(A,CG(x0))@b"] = ("op+vec", lambda A_, b, p: L.inv(cola.PSD(A_), L.CG(tol=1e-10, max_iters=40, x0=p.owned["x0"])) @ b)
    A["inv(A,GMRES(x0))@b"] = ("op+vec", lambda A_, b, p: L.inv(A_, L.GMRES(tol=1e-10, max_iters=6, x0=p.owned["x0"])) @ b)
    A["pinv(A)@b"] = ("op+vec", lambda A_, b, p: L.pinv(A_) @ b)
    A["diag(A)"] = ("op", lambda A_, _, p: L.diag(A_))
    A["diag(A,1)"] = ("op", lambda A_, _, p: L.diag(A_, 1, L.Exact()))
    A["trace(A)"] = ("op", lambda A_, _, p: L.trace(A_))
    A["trace(A,Hutch)"] = ("op", lambda A_, _, p: L.trace(A_, L.Hutch(tol=0.5, max_iters=2, key=3)))
    A["logdet(A)"] = ("op", lambda A_, _, p: L.logdet(A_))
    A["exp(A)@v"] = ("op+vec", lambda A_, v, p: L.exp(A_) @ v)
    A["sqrt(A,Lanczos)@v"] = ("op+vec", lambda A_, v, p: L.sqrt(cola.PSD(A_), L.Lanczos(max_iters=6, tol=1e-12)) @ v)
    A["exp(A,Arnoldi)@v"] = ("op+vec", lambda A_, v, p: L.exp(A_, L.Arnoldi(max_iters=4, tol=1e-12)) @ v)
    A["eig(A,2)"] = ("op", lambda A_, _, p: L.eig(A_, 2, "LM", L.Eig()))
    A["svd(A,2)"] = ("op", lambda A_, _, p: svd(A_, 2, "LM"))
    A["cholesky(A)"] = ("op", lambda A_, _, p: cholesky(cola.PSD(A_)))
    A["plu(A)"] = ("op", lambda A_, _, p: plu(A_))
    A["lanczos(A,v)"] = ("op+vec", lambda A_, v, p: lanczos(cola.SelfAdjoint(A_), v, max_iters=3, tol=1e-12)[:2])
    A["arnoldi(A,v)"] = ("op+vec", lambda A_, v, p: arnoldi(A_, v, max_iters=3, tol=1e-12)[:2])
    A["NystromPrecond(A)"] = ("op", lambda A_, _, p: NystromPrecond(cola.PSD(A_), rank=2, key=1))
    return A


ALPHABET = None


def alphabet():
    global ALPHABET
    if ALPHABET is None:
        ALPHABET = _alphabet()
    return ALPHABET


def default_snapshot():
    """module-level defaults: the Auto() instances bound as default arguments and the dataclass defaults of the algorithm classes"""
    snap = {}
    for fn in (L.inv, L.solve, L.pinv, L.logdet, L.slogdet, L.diag, L.trace, L.exp, L.log, L.sqrt, L.pow, L.eig, L.apply_unary):
        try:
            for name, par in inspect.signature(fn).parameters.items():
                if par.default is not inspect.Parameter.empty and hasattr(par.default, "__dict__"):
                    snap[f"{getattr(fn, '__name__', str(fn))}.{name}"] = repr(sorted(vars(par.default).items()))
        except (TypeError, ValueError):
            pass
    for cls in (L.CG, L.GMRES, L.Lanczos, L.Arnoldi, L.Hutch, L.Exact, L.PowerIteration):
        snap[cls.__name__] = repr(sorted((k, repr(v)) for k, v in vars(cls).items() if not k.startswith("__") and not callable(v)))
    return snap


def step(pool, ev, prev_op, prev_arr):
    """execute one event; returns (result, resolved operands)"""
    opname, aslot, vslot = ev
    kind, fn = alphabet()[opname]
    A_ = prev_op if aslot == "prev" else pool.ops[aslot]
    if A_ is None:
        return None, None, "no-prev-operator"
    arr = None
    if kind in ("op+vec", "op+mat"):
        default = {"A@x": "x", "x@A": "y", "A@X": "X"}.get(opname, "v" if "v" in opname.split("(")[-1] or opname.endswith("@v") else "b")
        arr = _arr(pool, prev_arr, vslot, default)
        want_rows = A_.shape[-1] if opname != "x@A" else A_.shape[-2]
        if arr.ndim == 0 or arr.shape[0] != want_rows or (kind == "op+mat" and arr.ndim != 2) or (kind == "op+vec" and arr.ndim != 1):
            return None, None, "shape-skip"
    return fn(A_, arr, pool), (A_, arr), None


def first_of(res):
    """the operator / array that flows forward from a result"""
    op, arr = None, None
    items = res if isinstance(res, (tuple, list)) else [res]
    for it in items:
        if isinstance(it, ops.LinearOperator) and op is None and len(it.shape) == 2 and it.shape[0] == it.shape[1] == 4:
            op = it
        elif isinstance(it, np.ndarray) and arr is None and it.ndim in (1, 2) and it.shape[0] == 4 and it.dtype.kind in "fc":
            arr = it
    return op, arr


def run_seq(case, seed):
    _, events, readonly = case
    vio, ntr = [], 0
    sig = " ; ".join(f"{e[0]}[{e[1]}{',' + e[2] if e[2] != 'own' else ''}]" for e in events)

    def bad(check, ev, detail):
        where = events.index(ev)
        prevname = events[where - 1][0] if where > 0 else "-"
        opk = ev[1] if ev[1] != "prev" else f"prev({events[where - 1][1]})"
        key = f"C18|{check}|{ev[0]}|{opk}|after:{prevname}" + ("|readonly" if readonly else "")
        if not any(v["key"] == key for v in vio):
            vio.append({"key": key, "what": f"{check} at step {where + 1} of: {sig}", "detail": {**detail, "sequence": events}})

    with warnings.catch_warnings():
        warnings.simplefilter("ignore")
        import logging
        logging.disable(logging.CRITICAL)
        defaults0 = default_snapshot()
        needed = {e[1] for e in events if e[1] != "prev"} | {"Diagonal", "Identity", "Dense", "Kronecker", "Sparse"}
        pool = Pool(seed, readonly=readonly, needed=needed)
        prev_op = prev_arr = None
        trace = []
        for ev in events:
            ntr += 1
            try:
                res, operands, skip = step(pool, ev, prev_op, prev_arr)
            except Exception as e:
                msg = str(e)
                if "read-only" in msg or "readonly" in msg:
                    bad("writes-into-a-caller-owned-array", ev, {"msg": msg[:200]})
                res, operands, skip = None, None, f"raised:{type(e).__name__}"
            if skip:
                trace.append((ev, None, None, skip))
                if skip in ("no-prev-operator", "shape-skip"):
                    break
                prev_op = prev_arr = None
                continue
            try:
                dg = digest(res)
            except Exception as e:
                dg = f"raised:{type(e).__name__}"
            trace.append((ev, operands, dg, None))
            # (i) caller-owned arrays untouched
            for k, a in pool.owned.items():
                if Pool.fp(a) != pool.finger[k]:
                    bad("caller-owned-array-modified", ev, {"array": k})
                    pool.finger[k] = Pool.fp(a)
            # (ii) the operators touched so far still are what they were
            touched = {e[1] for e, *_ in trace if e[1] != "prev"} | {"Diagonal", "Identity"}
            for name in touched:
                A_ = pool.ops[name]
                try:
                    Dn = np.asarray(A_.to_dense())
                    if Dn.shape != pool.refs[name].shape or not np.allclose(Dn, pool.refs[name], rtol=1e-12, atol=1e-12):
                        bad("pool-operator-changed", ev, {"operator": name})
                    if frozenset(a.__name__ for a in A_.annotations) != pool.anns[name]:
                        bad("pool-operator-annotations-changed", ev, {"operator": name, "now": sorted(a.__name__ for a in A_.annotations)})
                except Exception as e:
                    bad("pool-operator-broken", ev, {"operator": name, "msg": str(e)[:200]})
            prev_op, prev_arr = first_of(res)
        # (iii) repeat every executed call on the very same operands: bit-identical
        for ev, operands, dg, skip in trace:
            if skip or operands is None:
                continue
            ntr += 1
            A_, arr = operands
            try:
                again = digest(alphabet()[ev[0]][1](A_, arr, pool))
            except Exception as e:
                again = f"raised:{type(e).__name__}"
            if again != dg:
                bad("repeated-call-differs", ev, {"first": dg, "again": again})
        # (iv) all pool operators and caller arrays at the end; module-level defaults
        for name, A_ in pool.ops.items():
            try:
                Dn = np.asarray(A_.to_dense())
                if not np.allclose(Dn, pool.refs[name], rtol=1e-12, atol=1e-12):
                    bad("pool-operator-changed", events[-1], {"operator": name})
            except Exception as e:
                bad("pool-operator-broken", events[-1], {"operator": name, "msg": str(e)[:200]})
        for k, a in pool.owned.items():
            if Pool.fp(a) != pool.finger[k]:
                bad("caller-owned-array-modified", events[-1], {"array": k})
        if default_snapshot() != defaults0:
            bad("module-level-default-mutated", events[-1], {})
        logging.disable(logging.NOTSET)
    outcome = hashlib.sha256(repr([(t[2], t[3]) for t in trace]).encode()).hexdigest()[:12]
    return {"transitions": ntr, "outcome": outcome, "violations": vio}


# ---------------------------------------------------------------------------------------------- (b) registry histories
def _reg_events():
    """constructors whose attributes can hold array-bearing or array-free values (what the class-level registry can see)"""
    Dn = lambda n=3, t=0.0: ops.Dense(np.arange(n * n, dtype=np.float64).reshape(n, n) + t + np.eye(n) * 7)  # noqa: E731
    E = {
        "Sliced(slices)": lambda: Dn()[0:2, 1:3],
        "Sliced(index arrays)": lambda: Dn()[np.array([0, 2]), np.array([1, 2])],
        "Sliced(slice,array)": lambda: Dn()[0:2, np.array([1, 2])],
        "Sliced of Diagonal": lambda: ops.Diagonal(np.arange(1., 4.))[0:2, 0:2],
        "BlockDiag(list mult)": lambda: ops.BlockDiag(Dn(2), Dn(2, 1.), multiplicities=[1, 2]),
        "BlockDiag(ndarray mult)": lambda: ops.BlockDiag(Dn(2), Dn(2, 1.), multiplicities=np.array([1, 2])),
        "BlockDiag(Identity blocks)": lambda: ops.BlockDiag(ops.Identity((2, 2), np.float64), ops.Identity((2, 2), np.float64)),
        "Product[Dense,Dense]": lambda: ops.Product(Dn(), Dn(3, 1.)),
        "Product[Identity,Identity]": lambda: ops.Product(ops.Identity((3, 3), np.float64), ops.Identity((3, 3), np.float64)),
        "Product[Identity,Dense]": lambda: ops.Product(ops.Identity((3, 3), np.float64), Dn()),
        "Sum[Identity,Identity]": lambda: ops.Sum(ops.Identity((3, 3), np.float64), ops.Identity((3, 3), np.float64)),
        "Sum[Dense,Identity]": lambda: ops.Sum(Dn(), ops.Identity((3, 3), np.float64)),
        "Kronecker[Identity,Identity]": lambda: ops.Kronecker(ops.Identity((2, 2), np.float64), ops.Identity((2, 2), np.float64)),
        "Kronecker[Dense,Identity]": lambda: ops.Kronecker(Dn(2), ops.Identity((2, 2), np.float64)),
        "KronSum[Identity,Identity]": lambda: ops.KronSum(ops.Identity((2, 2), np.float64), ops.Identity((2, 2), np.float64)),
        "ScalarMul(python float)": lambda: ops.ScalarMul(2.0, (3, 3), dtype=np.float64),
        "ScalarMul(0-d array)": lambda: ops.ScalarMul(np.array(2.0), (3, 3), dtype=np.float64),
        "Householder(python beta)": lambda: ops.Householder(np.ones((3, 1)), 2.0),
        "Householder(array beta)": lambda: ops.Householder(np.ones((3, 1)), np.array(0.5)),
        "Generic(matmat)": lambda: ops.LinearOperator(np.float64, (3, 3), matmat=lambda X: 2 * X),
        "LanczosUnary(start None)": lambda: L.exp(cola.PSD(Dn() + Dn().T), L.Lanczos(max_iters=3)),
        "LanczosUnary(start array)": lambda: L.exp(cola.PSD(Dn() + Dn().T), L.Lanczos(start_vector=np.ones(3), max_iters=3)),
        "IterativeOp(CG no x0)": lambda: L.inv(cola.PSD(Dn() + Dn().T), L.CG(max_iters=5)),
        "IterativeOp(CG x0,P)": lambda: L.inv(cola.PSD(Dn() + Dn().T), L.CG(max_iters=5, x0=np.ones(3), P=ops.Diagonal(np.ones(3)))),
        "Concatenated(Dense)": lambda: ops.Concatenated(Dn(), Dn(3, 1.), axis=0),
        "Transpose[Generic]": lambda: ops.Transpose(ops.LinearOperator(np.float64, (3, 3), matmat=lambda X: 2 * X)),
        "Identity.to()": lambda: ops.Identity((3, 3), np.float64).to(None),
    }
    return E


def _probe_builders():
    """name -> (constructor(params) -> operator, params: dict name -> array)   [arrays the caller passes in]"""
    r = np.random.default_rng(7)
    M = lambda n=3: r.integers(-3, 4, (n, n)).astype(np.float64) + 5 * np.eye(n)  # noqa: E731
    B = {
        "Dense": (lambda p: ops.Dense(p["A"]), {"A": M()}),
        "Triangular": (lambda p: ops.Triangular(p["A"], lower=True), {"A": np.tril(M())}),
        "Diagonal": (lambda p: ops.Diagonal(p["d"]), {"d": np.arange(1., 4.)}),
        "Tridiagonal": (lambda p: ops.Tridiagonal(p["a"], p["b"], p["c"]), {"a": np.ones(2), "b": 4 * np.ones(3), "c": 2 * np.ones(2)}),
        "Householder": (lambda p: ops.Householder(p["v"], 0.5), {"v": np.arange(1., 4.)[:, None]}),
        "Kernel": (lambda p: ops.Kernel(p["x1"], p["x2"], lambda a, b: a @ b.T, 1, 1), {"x1": M()[:, :2], "x2": M()[:, :2]}),
        "Sparse": (lambda p: ops.Sparse(p["data"], np.array([0, 1, 2, 0]), np.array([0, 1, 2, 2]), shape=(3, 3)), {"data": np.array([1., 2., 3., 4.])}),
        "Product": (lambda p: ops.Product(ops.Dense(p["A"]), ops.Diagonal(p["d"])), {"A": M(), "d": np.arange(1., 4.)}),
        "Sum": (lambda p: ops.Sum(ops.Dense(p["A"]), ops.Dense(p["B"])), {"A": M(), "B": M()}),
        "Kronecker": (lambda p: ops.Kronecker(ops.Dense(p["A"]), ops.Diagonal(p["d"])), {"A": M(2), "d": np.arange(1., 3.)}),
        "KronSum": (lambda p: ops.KronSum(ops.Dense(p["A"]), ops.Dense(p["B"])), {"A": M(2), "B": M(2)}),
        "BlockDiag": (lambda p: ops.BlockDiag(ops.Dense(p["A"]), ops.Dense(p["B"]), multiplicities=[2, 1]), {"A": M(2), "B": M(2)}),
        "Sliced(slices)": (lambda p: ops.Dense(p["A"])[0:2, 1:3], {"A": M()}),
        "Sliced(arrays)": (lambda p: ops.Dense(p["A"])[np.array([0, 2]), np.array([1, 0])], {"A": M()}),
        "Transpose": (lambda p: ops.Transpose(ops.Tridiagonal(p["a"], p["b"], p["c"])), {"a": np.ones(2), "b": 4 * np.ones(3), "c": 2 * np.ones(2)}),
        "Adjoint": (lambda p: ops.Adjoint(ops.Diagonal(p["d"])), {"d": np.arange(1., 4.) * (1 + 1j)}),
        "PSD(Dense)": (lambda p: cola.PSD(ops.Dense(p["A"])), {"A": M() @ M().T}),
        "scaled": (lambda p: 2.5 * ops.Dense(p["A"]), {"A": M()}),
        "Concatenated": (lambda p: ops.Concatenated(ops.Dense(p["A"]), ops.Dense(p["B"]), axis=0), {"A": M(), "B": M()}),
        "inv(Triangular)": (lambda p: L.inv(ops.Triangular(p["A"], lower=True)), {"A": np.tril(M())}),
        "Product[Identity,Dense]": (lambda p: ops.Product(ops.Identity((3, 3), np.float64), ops.Dense(p["A"])), {"A": M()}),
        "BlockDiag(ndarray mult)": (lambda p: ops.BlockDiag(ops.Dense(p["A"]), multiplicities=np.array([2])), {"A": M(2)}),
    }
    return B


def probe():
    """flatten / unflatten facts for an operator of every kind; returns a JSON-able dict"""
    out = {}
    for name, (ctor, params), used in [(n, b, u) for n, b in _probe_builders().items() for u in (False, True)]:
        rec = {} if used else {"moved_dtype_ok": True}
        try:
            params = {k: v.copy() for k, v in params.items()}
            A = ctor(params)
            if used:
                # the same probe on an operator that has already been used: any state a product / densification / transpose left behind
                # (a cached matrix, a memoised factor) must not travel through flatten into the rebuilt operator
                name = name + "|used"
                g = np.random.default_rng(5)
                X = g.integers(-2, 3, size=(A.shape[1], 2)).astype(np.float64)
                Y = g.integers(-2, 3, size=(2, A.shape[0])).astype(np.float64)
                for warm in (lambda: A @ X, lambda: A.to_dense(), lambda: Y @ A, lambda: A.T @ Y.T, lambda: A.H.to_dense()):
                    try:
                        warm()
                    except Exception:
                        pass
            leaves, unflatten = A.flatten()
            arr_leaves = [x for x in leaves if isinstance(x, np.ndarray)]
            rec["non_array_leaves"] = sorted(type(x).__name__ for x in leaves if not isinstance(x, np.ndarray))
            # every caller array must be a leaf (by bytes) and nothing else of float/complex kind may be
            # every caller array must be a leaf (same multiset of values: Sparse stores its data in row-major order); further
            # floating leaves are allowed only if they are scalars the constructor turned into 0-d arrays (ScalarMul.c, Householder.beta)
            key = lambda a: hashlib.sha256(np.sort_complex(np.asarray(a, dtype=np.complex128).reshape(-1)).tobytes()).hexdigest()[:10] + str(a.size)  # noqa: E731
            want = sorted(key(v) for v in params.values())
            fl = [x for x in arr_leaves if x.dtype.kind in "fc"]
            got = sorted(key(x) for x in fl if x.ndim > 0)
            rec["leaves_are_exactly_the_parameters"] = got == want
            rec["n_leaves"] = len(leaves)
            B = unflatten(leaves)
            D0 = np.asarray(A.to_dense())
            rec["roundtrip_same_class"] = type(B) is type(A)
            rec["roundtrip_same_shape_dtype"] = tuple(B.shape) == tuple(A.shape) and np.dtype(B.dtype) == np.dtype(A.dtype)
            rec["roundtrip_same_annotations"] = set(B.annotations) == set(A.annotations)
            rec["roundtrip_same_dense"] = bool(np.array_equal(np.asarray(B.to_dense()), D0))
            # substitute each parameter leaf: the result must be the operator constructed from the changed parameter
            subs_ok = True
            for pname, pval in params.items():
                hv = key(pval)
                new_leaves = [(x * 2 + 1) if (isinstance(x, np.ndarray) and x.dtype.kind in "fc" and x.ndim > 0 and key(x) == hv) else x for x in leaves]
                C = unflatten(new_leaves)
                p2 = dict(params)
                p2[pname] = pval * 2 + 1
                want_dense = np.asarray(ctor(p2).to_dense())
                if not np.allclose(np.asarray(C.to_dense()), want_dense, rtol=1e-12, atol=1e-12):
                    subs_ok = False
                if not np.array_equal(np.asarray(A.to_dense()), D0):
                    rec["original_changed_by_substitution"] = True
            rec["substituted_leaf_changes_exactly_that_parameter"] = subs_ok
            if used:
                # a dtype move of a used operator (cola documents dtype changes as unsupported, so only the VALUES are judged): A.to(None,
                # float32 / complex64) must still represent the same matrix up to single-precision rounding and leave the original alone
                lowd = np.complex64 if np.dtype(A.dtype).kind == "c" else np.float32
                try:
                    Bl = A.to(None, lowd)
                    xl = np.ones((A.shape[1], 1), dtype=lowd)
                    yl = np.asarray(Bl @ xl)
                    rec["moved_dtype_ok"] = bool(np.allclose(yl, D0 @ xl.astype(D0.dtype), rtol=1e-4, atol=1e-4)
                                                 and np.array_equal(np.asarray(A.to_dense()), D0))
                except NotImplementedError:
                    rec["moved_dtype_ok"] = True
        except Exception as e:
            rec["exception"] = f"{type(e).__name__}: {str(e)[:120]}"
        out[name] = rec
    return out


EXPECT = {"non_array_leaves": [], "leaves_are_exactly_the_parameters": True, "roundtrip_same_class": True, "roundtrip_same_shape_dtype": True,
          "roundtrip_same_annotations": True, "roundtrip_same_dense": True, "substituted_leaf_changes_exactly_that_parameter": True, "moved_dtype_ok": True}


_REG_RESULTS = {}


def _reg_child(hist, w):
    res = {}
    try:
        with warnings.catch_warnings():
            warnings.simplefilter("ignore")
            import logging
            logging.disable(logging.CRITICAL)
            E = _reg_events()
            for name in hist:
                try:
                    E[name]()
                except Exception as e:
                    res.setdefault("_event_errors", {})[name] = f"{type(e).__name__}: {str(e)[:100]}"
            res["probe"] = probe()
    except BaseException as e:
        res["_fatal"] = f"{type(e).__name__}: {e}"
    with os.fdopen(w, "wb") as f:
        pickle.dump(res, f)
    os._exit(0)


def reg_histories(tier):
    ev = list(REG_EVENT_NAMES)
    if tier == "quick":  # the events that touch classes shared between payload kinds
        ev = [e for e in ev if e.startswith(("Sliced", "BlockDiag", "Product", "Sum", "Kronecker", "ScalarMul", "Householder", "LanczosUnary", "IterativeOp"))]
    reg = [[]] + [[a] for a in ev] + [[a, b] for a in ev for b in ev if a != b]
    if tier == "thorough":
        shared = [e for e in ev if e.startswith(("Sliced", "BlockDiag", "Product", "ScalarMul", "Householder"))]
        reg += [[a, b, c] for a in shared for b in shared for c in shared if len({a, b, c}) == 3]
    return reg


def prepare(tier, seed):
    """Registry histories are executed here, in children forked from the parent process *before* it (or any worker) has constructed
    a single operator, so every history starts from the registries as they are right after `import cola`."""
    assert set(ops.Dense._dynamic) == set(ops.LinearOperator._dynamic), "parent process already constructed operators"
    hists = reg_histories(tier)
    running = {}
    jobs = int(os.environ.get("VERIF_JOBS", "16"))

    def reap(block):
        for pid in list(running):
            done, _ = os.waitpid(pid, 0 if block else os.WNOHANG)
            if done:
                h, r = running.pop(pid)
                with os.fdopen(r, "rb") as f:
                    data = f.read()
                _REG_RESULTS[json.dumps(h)] = pickle.loads(data) if data else {"_fatal": "child died"}
                if block:
                    return

    for h in hists:
        while len(running) >= jobs:
            reap(True)
        r, w = os.pipe()
        pid = os.fork()
        if pid == 0:
            os.close(r)
            _reg_child(h, w)
        os.close(w)
        running[pid] = (h, r)
        # pipes must be drained for big payloads: results are small (a few KB), below the pipe buffer
    while running:
        reap(True)


def run_reg(case, seed):
    _, hist = case
    res = _REG_RESULTS.get(json.dumps(hist), {"_fatal": "history was not executed in prepare()"})
    vio = []
    if "_fatal" in res:
        return {"transitions": 1, "outcome": "fatal", "violations": [], "harness_error": res["_fatal"]}
    pr = res["probe"]
    after = hist[-1] if hist else "-"
    for kind, rec in pr.items():
        for k, want in EXPECT.items():
            got = rec.get(k, rec.get("exception"))
            if got != want:
                vio.append({"key": f"C18|registry|{kind}|{k}|history:{' > '.join(hist) if hist else 'none'}", "what": f"{kind}: {k} = {got!r} (expected {want!r}) "
                            f"after constructing {hist or 'nothing'}", "detail": {"record": rec, "history": hist}})
        if rec.get("original_changed_by_substitution"):
            vio.append({"key": f"C18|registry|{kind}|original-changed|history:{after}", "what": f"{kind}: substituting a leaf changed the original operator",
                        "detail": {"history": hist}})
    outcome = hashlib.sha256(json.dumps(pr, sort_keys=True, default=str).encode()).hexdigest()[:12]
    return {"transitions": len(pr) * len(EXPECT), "outcome": outcome, "violations": vio}


def run_case(case, seed):
    return run_seq(case, seed) if case[0] == "SEQ" else run_reg(case, seed)


_DESC = {}


def cases(tier, seed):
    alph = list(_alphabet_names())
    pool = list(POOL_TERMS)
    kinds = ALPHA_KINDS
    out = []
    # length 1: every operation on every pool operator, once normally and once with all caller arrays read-only
    ev1 = [(o, a, "own") for o in alph for a in pool]
    for e in ev1:
        out.append(["SEQ", [list(e)], False])
        out.append(["SEQ", [list(e)], True])
    # length 2, flow-forward: the second step consumes the operator and/or the array returned by the first
    flow2 = []
    for o2 in alph:
        k2 = kinds[o2]
        flow2.append((o2, "prev", "own"))
        if k2 in ("op+vec", "op+mat"):
            for a in (pool if tier == "thorough" else ["Dense", "Identity", "Householder"]):
                flow2.append((o2, a, "prev"))
            flow2.append((o2, "prev", "prev"))
    firsts = ev1 if tier == "thorough" else [e for e in ev1 if e[1] in ("Dense", "Identity", "Permutation", "Kronecker")]
    for e1 in firsts:
        for e2 in flow2:
            out.append(["SEQ", [list(e1), list(e2)], False])
    n_flow = len(firsts) * len(flow2)
    # length 2 on the same pool operator (interference through the operator object itself)
    same_ops = pool if tier == "thorough" else ["Dense", "Identity", "Sliced"]
    for a in same_ops:
        for o1 in alph:
            for o2 in alph:
                out.append(["SEQ", [[o1, a, "own"], [o2, a, "own"]], False])
    # length 2 on two different operators (interference through process-wide state)
    for o1 in alph:
        for o2 in alph:
            out.append(["SEQ", [[o1, "Dense", "own"], [o2, "Kronecker", "own"]], False])
    n3 = 0
    if tier == "thorough":
        chain_ops = ["A@x", "A.T", "A.H", "-A", "A+Diag", "A@Diag", "Identity@A", "PSD(A)", "flatten-unflatten", "A[1:3,::2]", "inv(A)@b", "diag(A)",
                     "exp(A)@v", "cholesky(A)", "lanczos(A,v)", "arnoldi(A,v)", "to_dense", "A.to(None,f8)", "solve(A,b)", "x@A"]
        for a in pool:
            for o1 in chain_ops:
                for o2 in chain_ops:
                    for o3 in chain_ops:
                        s2 = "prev" if kinds[o2] == "op" else "own"
                        out.append(["SEQ", [[o1, a, "own"], [o2, "prev", "prev" if kinds[o2] != "op" else "own"], [o3, "prev", "prev" if kinds[o3] != "op" else "own"]], False])
                        n3 += 1
    # (b) registry histories
    ev = list(_reg_events_names())
    reg = [["REG", h] for h in reg_histories(tier)]
    out += reg
    _DESC.update({"operations": len(alph), "pool_operators": len(pool), "length1": 2 * len(ev1), "length2_flow_forward": n_flow,
                  "length2_same_operator": len(same_ops) * len(alph)**2, "length2_two_operators": len(alph)**2, "length3_chains": n3,
                  "registry_events": len(ev), "registry_histories": len(reg), "probe_kinds": len(PROBE_NAMES)})
    return out


def _alphabet_names():
    return ALPHA_KINDS.keys()


# static tables (the parent process must not construct operators: registry histories fork from it)
ALPHA_KINDS = {
    "A@x": "op+vec", "x@A": "op+vec", "A@X": "op+mat", "A@xc": "op", "A.T": "op", "A.H": "op", "to_dense": "op", "-A": "op", "2.5*A": "op", "A+Diag": "op",
    "A@Diag": "op", "Identity@A": "op", "kron(A,Id2)": "op", "PSD(A)": "op", "flatten-unflatten": "op", "A[1,2]": "op", "A[2]": "op", "A[idx,:]": "op",
    "A[1:3,::2]": "op", "A[0:2,0:2]": "op", "A[idx,idx]": "op", "inv(A,CG())": "op", "inv(A,GMRES())": "op", "exp(A,Lanczos())": "op", "sqrt(A,Arnoldi())": "op", "pinv(A,CG())": "op", "A.to(None,f8)": "op", "inv(A)@b": "op+vec", "solve(A,b)": "op+vec", "inv(A,CG(x0))@b": "op+vec", "inv(A,GMRES(x0))@b": "op+vec",
    "pinv(A)@b": "op+vec", "diag(A)": "op", "diag(A,1)": "op", "trace(A)": "op", "trace(A,Hutch)": "op", "logdet(A)": "op", "exp(A)@v": "op+vec",
    "sqrt(A,Lanczos)@v": "op+vec", "exp(A,Arnoldi)@v": "op+vec", "eig(A,2)": "op", "svd(A,2)": "op", "cholesky(A)": "op", "plu(A)": "op",
    "lanczos(A,v)": "op+vec", "arnoldi(A,v)": "op+vec", "NystromPrecond(A)": "op",
}
REG_EVENT_NAMES = ["Sliced(slices)", "Sliced(index arrays)", "Sliced(slice,array)", "Sliced of Diagonal", "BlockDiag(list mult)", "BlockDiag(ndarray mult)",
                   "BlockDiag(Identity blocks)", "Product[Dense,Dense]", "Product[Identity,Identity]", "Product[Identity,Dense]", "Sum[Identity,Identity]",
                   "Sum[Dense,Identity]", "Kronecker[Identity,Identity]", "Kronecker[Dense,Identity]", "KronSum[Identity,Identity]", "ScalarMul(python float)",
                   "ScalarMul(0-d array)", "Householder(python beta)", "Householder(array beta)", "Generic(matmat)", "LanczosUnary(start None)",
                   "LanczosUnary(start array)", "IterativeOp(CG no x0)", "IterativeOp(CG x0,P)", "Concatenated(Dense)", "Transpose[Generic]", "Identity.to()"]
PROBE_NAMES = ["Dense", "Triangular", "Diagonal", "Tridiagonal", "Householder", "Kernel", "Sparse", "Product", "Sum", "Kronecker", "KronSum", "BlockDiag",
               "Sliced(slices)", "Sliced(arrays)", "Transpose", "Adjoint", "PSD(Dense)", "scaled", "Concatenated", "inv(Triangular)", "Product[Identity,Dense]",
               "BlockDiag(ndarray mult)"]


def _reg_events_names():
    return REG_EVENT_NAMES


def case_signature(case):
    return str(case)[:120]


def describe(tier, seed):
    return {
        "bound": "(a) pool of 20 operators (every kind, aliasing-prone ones included) and 8 caller-owned operands; alphabet of 40 operations; every "
                 "sequence of length 1 (also with all caller arrays read-only), every length-2 sequence in which the second step consumes the result of "
                 "the first (flow-forward), every length-2 sequence on the same operator, every length-2 sequence on two fixed different operators"
                 + ("; every chain of 3 over 20 operations in which each step consumes the previous result" if tier == "thorough" else "")
                 + "; (b) every ordered history of <= 2 distinct first-instantiation events out of 27" + (" (and <= 3 over the events touching shared classes)" if tier == "thorough" else "")
                 + ", each in a forked child, followed by a flatten / unflatten / leaf-substitution probe on 22 operator kinds",
        "alphabet": _DESC,
        "oracle": "after every step: bytes / flags / strides of every caller-owned array unchanged, touched pool operators densify to their reference with "
                  "the same annotations; at the end: every executed call repeated on the same operands is bit-identical, all pool operators and module-level "
                  "defaults unchanged; registry probe identical to the one from the empty history and equal to the expected facts",
    }
