"""C03 -- operator algebra builds the operator of the corresponding matrix expression; bad shapes are rejected."""
import hashlib
import warnings

import numpy as np

import cola
from cola import ops
from mc import alphabet as AB
from mc import payload as P
from mc.refmodel import (Inadmissible, children, coarse_signature, is_exact, low_precision, ref, shape_of, signature)
from mc.termcheck import TermChecker, compare, short, tol_for
from mc.terms import build, to_source

PROPERTY = "C03"
ASSUMPTIONS = [
    "NumPy backend only; harness shim as in C01",
    "c / A accepts three readings: c * inv(A), element-wise c / A, or an exception -- but not A / c",
    "result dtype for NumPy scalars / 0-d arrays: both the NEP-50 and the value-based promotion are accepted",
    "`ndarray - operator` (no __rsub__) and kronsum of non-square operands are outside the alphabet",
]

SCALAR_IDS = ["two", "m3", "zero", "half", "cj", "f2", "np32", "npi3", "arr2", "arrcj", "np64", "npc128"]
DIV_IDS = ["d2", "dm4", "dhalf", "cj"]


def raw_equivalent(t):
    """same expression through the raw constructors (no rewriting): differential side-check"""
    k = t[0]
    if k == "add":
        return ["Sum", [raw_equivalent(t[1]), raw_equivalent(t[2])]]
    if k == "matmul":
        return ["Product", [raw_equivalent(t[1]), raw_equivalent(t[2])]]
    if k == "kron":
        return ["Kronecker", [raw_equivalent(t[1]), raw_equivalent(t[2])]]
    if k == "kronsum":
        return ["KronSum", [raw_equivalent(t[1]), raw_equivalent(t[2])]]
    return t


def observe(term, seed):
    fails, n, h = {}, 0, hashlib.sha256()
    if term[0] == "REJECT":
        return observe_reject(term, seed)
    if term[0] == "rdiv":
        return observe_rdiv(term, seed)
    try:
        R = ref(term, seed)
    except Inadmissible:
        return {}, 0, "inadmissible"
    lowp = low_precision(term)
    with warnings.catch_warnings():
        warnings.simplefilter("ignore")
        n += 1
        try:
            A = build(term, seed)
        except Exception as e:
            return {"build": (f"exc:{type(e).__name__}", {"msg": str(e)[:300], "src": to_source(term)})}, n, "build-exc"
        if not isinstance(A, ops.LinearOperator):
            return {"build": ("not-an-operator", {"type": type(A).__name__, "src": to_source(term)})}, n, "nonop"
        n += 2
        if tuple(A.shape) != R.shape:
            fails["shape"] = ("shape", {"got": list(A.shape), "want": list(R.shape), "src": to_source(term)})
            return fails, n, "shape"
        if np.dtype(A.dtype) not in R.dtypes:
            fails["dtype"] = ("dtype", {"got": str(A.dtype), "want": sorted(map(str, R.dtypes)), "src": to_source(term)})
        n += 1
        try:
            Dn = np.asarray(A.to_dense())
            sym = compare(Dn, R.mat, is_exact(term, R.mat, Dn.dtype), 2e-4 if lowp else tol_for(Dn.dtype))
            if sym is None and np.dtype(Dn.dtype) not in R.dtypes:
                sym = "dtype"
            if sym:
                fails["to_dense"] = (sym, {"got": short(Dn), "want": short(R.mat), "want_dtypes": sorted(map(str, R.dtypes)),
                                           "src": to_source(term)})
            h.update(np.ascontiguousarray(Dn).tobytes())
        except Exception as e:
            fails["to_dense"] = (f"exc:{type(e).__name__}", {"msg": str(e)[:300], "src": to_source(term)})
        n += 1
        x = P.operand(seed, R.shape[1], 2, "c16", "c03x")
        want = R.mat @ x
        try:
            y = np.asarray(A @ x)
            sym = compare(y, want, is_exact(term, want, y.dtype) and is_exact(term, R.mat, y.dtype), 2e-4 if lowp else tol_for(y.dtype))
            if sym:
                fails["matmul"] = (sym, {"got": short(y), "want": short(want), "src": to_source(term)})
            h.update(np.ascontiguousarray(y).tobytes())
        except Exception as e:
            fails["matmul"] = (f"exc:{type(e).__name__}", {"msg": str(e)[:300], "src": to_source(term)})
        raw = raw_equivalent(term)
        if raw != term:
            n += 1
            try:
                B = build(raw, seed)
                Db = np.asarray(B.to_dense())
                Da = np.asarray(A.to_dense())
                sym = compare(Da, Db.astype(np.complex128), is_exact(term, R.mat, Da.dtype), 2e-4 if lowp else tol_for(Da.dtype))
                if sym or tuple(B.shape) != tuple(A.shape):
                    fails["raw-differential"] = (sym or "shape", {"rewritten": short(Da), "raw": short(Db), "src": to_source(term)})
            except Exception as e:
                fails["raw-differential"] = (f"exc:{type(e).__name__}", {"msg": str(e)[:300], "src": to_source(raw)})
    return fails, n, h.hexdigest()[:16]


def observe_rdiv(term, seed):
    """c / A: accepted readings c*inv(A), element-wise c/A, or an exception; never A / c (unless they coincide)."""
    _, cid, sub = term
    R = ref(sub, seed)
    c = complex(np.asarray(P.scalar(cid)))
    with warnings.catch_warnings():
        warnings.simplefilter("ignore")
        try:
            A = build(sub, seed)
        except Exception:
            return {}, 0, "build-exc"
        try:
            B = P.scalar(cid) / A
        except Exception as e:
            return {}, 1, f"refused:{type(e).__name__}"
        try:
            Dn = np.asarray(B.to_dense() if isinstance(B, ops.LinearOperator) else B)
        except Exception as e:
            return {"rdiv": (f"exc:{type(e).__name__}", {"msg": str(e)[:300], "src": to_source(term)})}, 2, "exc"
    inv = c * np.linalg.inv(R.mat)
    with np.errstate(all="ignore"):
        elem = c / R.mat
    for cand in (inv, elem):
        if Dn.shape == cand.shape and np.all(np.isfinite(cand)) and np.allclose(Dn, cand, rtol=1e-4 if low_precision(sub) else 1e-9, atol=1e-9):
            return {}, 2, hashlib.sha256(np.ascontiguousarray(Dn).tobytes()).hexdigest()[:16]
    return {"rdiv": ("value", {"got": short(Dn), "want_c_inv": short(inv), "A_over_c": short(R.mat / c), "src": to_source(term)})}, 2, "bad"


REJECT_FORMS = ["add", "sub", "matmul", "Sum", "Product", "pysum"]


def observe_reject(term, seed):
    _, a, b = term
    fails, n = {}, 0
    with warnings.catch_warnings():
        warnings.simplefilter("ignore")
        try:
            A0, B0 = build(a, seed), build(b, seed)
        except Exception:
            return {}, 0, "build-exc"
        sa, sb = tuple(A0.shape), tuple(B0.shape)
        for form in REJECT_FORMS:
            bad = (sa[1] != sb[0]) if form in ("matmul", "Product") else (sa != sb)
            if not bad:
                continue
            n += 1
            try:
                out = build([form, a, b] if form in ("add", "sub", "matmul") else [form, [a, b]], seed)
            except Exception:
                continue
            fails[f"reject:{form}"] = ("accepted", {"result": repr(out)[:120], "shapes": [list(sa), list(sb)],
                                                     "src": to_source([form, a, b] if form in ("add", "sub", "matmul") else [form, [a, b]])})
    return fails, n, f"rejected:{n}"


def sig(t):
    if t[0] == "REJECT":
        return f"{coarse_signature(t[1])},{coarse_signature(t[2])}"
    return signature(t)


class Checker(TermChecker):
    def core(self, term, obs, seed):
        if term[0] in ("REJECT", "rdiv"):
            return term
        return super().core(term, obs, seed)


CHECKER = Checker(PROPERTY, observe, sig=sig)
_DESC = {}

OVERLOAD_UN = {
    "neg": AB.UNARY["neg"],
    "lmul": lambda a: [["lmul", c, a] for c in SCALAR_IDS],
    "rmul": lambda a: [["rmul", a, c] for c in SCALAR_IDS],
    "div": lambda a: [["div", a, c] for c in DIV_IDS[:3]],
    "T": AB.UNARY["T"], "H": AB.UNARY["H"], "NoDisp": AB.UNARY["NoDisp"],
    "densify_lazify": lambda a: [["densify_lazify", a]],
}
OVERLOAD_UN_R = {"neg": AB.UNARY["neg"], "lmul": lambda a: [["lmul", c, a] for c in ("m3", "cj", "arr2")],
                 "rmul": lambda a: [["rmul", a, "half"]], "div": lambda a: [["div", a, "dm4"]], "T": AB.UNARY["T"], "H": AB.UNARY["H"]}
OVERLOAD_BI = {
    "matmul": AB.BINARY["matmul"], "add": AB.BINARY["add"], "sub": AB.BINARY["sub"], "kron": AB.BINARY["kron"],
    "kronsum": AB.BINARY["kronsum"], "block_diag": lambda a, b: [["block_diag", [a, b]]], "pysum": lambda a, b: [["pysum", [a, b]]],
}


def _invertible_leaves():
    out = []
    for n in (1, 2, 3):
        out += [AB.D(n, n, "f8", "uni"), AB.D(n, n, "c16", "uni")]
    out += [["Tri", 3, "f8", True, "g"], ["Tri", 2, "c16", False, "g"], ["Diag", 3, "f8", "mixed"], ["Diag", 2, "c16", "mixed"],
            ["Scalar", "two", 3, "f8"], ["Scalar", "cj", 2, "c16"], ["Identity", 3, "f8"], ["Perm", 3, "cyc", "f8"],
            ["Perm", 4, "cyc3", None], ["Ann", "PSD", AB.D(3, 3, "f8", "spd")], ["kron", AB.D(2, 2, "f8", "uni"), ["Diag", 2, "f8", "pos"]],
            ["matmul", AB.D(2, 2, "f8", "uni"), ["Tri", 2, "f8", True, "g"]]]
    return out


def gen(tier):
    W = AB.with_shapes
    full = W(AB.leaves_full())
    mid = W(AB.leaves_mid())
    small = W(AB.leaves_small())
    info = {}
    arrs = W([["Arr", [2, 2], "f8", "g"], ["Arr", [3, 3], "c16", "g"], ["Arr", [2, 3], "f4", "g"], ["Arr", [3, 2], "f8", "g"]])
    out = []
    # (a) every scalar operation on every leaf
    a = AB.grow([full], unary=OVERLOAD_UN, binary={})
    # (b) binary overloads / functional API: L_full x L_mid (quick: x primitives of L_small), and mixed with arrays
    partner_keys = {repr(t) for t, _ in (small[:10] if tier == "quick" else mid)}
    b = AB.grow([full], unary={}, binary=OVERLOAD_BI, partner=lambda x: repr(x) in partner_keys)
    arr_bin = {"add": AB.BINARY["add"], "sub": lambda x, y: [["sub", x, y]] if y[0] == "Arr" else [],
               "kron": AB.BINARY["kron"], "kronsum": AB.BINARY["kronsum"], "block_diag": OVERLOAD_BI["block_diag"]}
    arrkeys = {repr(t) for t, _ in arrs}
    bm = [(t, s) for t, s in AB.grow([full + arrs], unary={}, binary=arr_bin, partner=lambda x: repr(x) in arrkeys)
          if not (t[1][0] == "Arr" and t[2][0] == "Arr") and not (t[0] == "block_diag" and all(x[0] == "Arr" for x in t[1]))]
    out += a + b + bm
    info["L_full"] = {"leaves": len(full), "scalar_ops": len(a), "binary": len(b), "mixed_with_ndarray": len(bm)}
    # (c) nestings over L_small with the overloads only
    s1 = AB.grow([small], unary=OVERLOAD_UN_R, binary=OVERLOAD_BI)
    pk = {repr(t) for t, _ in small[:4]}
    un2 = OVERLOAD_UN_R if tier == "thorough" else {"lmul": lambda x: [["lmul", "cj", x]], "neg": AB.UNARY["neg"], "T": AB.UNARY["T"]}
    bi2 = OVERLOAD_BI if tier == "thorough" else {k: OVERLOAD_BI[k] for k in ("matmul", "add", "sub", "kron", "kronsum")}
    s2 = AB.grow([small, s1], unary=un2, binary=bi2, max_dim=24,
                 partner=(lambda x: repr(x) in pk) if tier == "quick" else None)
    out += s1 + s2
    info["L_small"] = {"leaves": len(small), "size1": len(s1), "size2": len(s2)}
    if tier == "thorough":
        m1 = AB.grow([mid], unary=OVERLOAD_UN_R, binary=OVERLOAD_BI)
        m2 = AB.grow([mid, m1], unary=OVERLOAD_UN_R, binary={k: OVERLOAD_BI[k] for k in ("matmul", "add", "sub", "kron")}, max_dim=30)
        out += m1 + m2
        info["L_mid"] = {"leaves": len(mid), "size1": len(m1), "size2": len(m2)}
        bi3 = {k: OVERLOAD_BI[k] for k in ("matmul", "add", "kron")}
        s3 = AB.grow([small, s1, s2], unary={"lmul": lambda x: [["lmul", "cj", x]], "T": AB.UNARY["T"]}, binary=bi3, max_dim=16,
                     cap=300000)
        info["L_small"]["size3"] = len(s3)
        info["L_small"]["size3_cap_hit"] = len(s3) >= 300000
        out += s3
    terms = [t for t, _ in out]
    # (d) scalar / operator
    rd = [["rdiv", c, t] for t in _invertible_leaves() for c in ("two", "m3", "half", "cj", "arr2")]
    info["rdiv"] = len(rd)
    # (e) rejection of incompatible shapes
    rej = []
    pool = full if tier == "thorough" else [x for x in full if x[0][0] not in ("Kernel", "FFT", "House")]
    for ta, sa in pool:
        for tb, sb in pool:
            if sa != sb or sa[1] != sb[0]:
                rej.append(["REJECT", ta, tb])
    info["reject_pairs"] = len(rej)
    seen, uniq = set(), []
    for t in terms + rd + rej:
        k = repr(t)
        if k not in seen:
            seen.add(k)
            uniq.append(t)
    info["total_states"] = len(uniq)
    return uniq, info


INT_EXPRS = {
    # name -> (cola expression of operators A (integer Dense), D (integer Diagonal), F (float64 Dense); the same expression on the matrices)
    "2.5*A": lambda A, D, F: 2.5 * A, "A*2.5": lambda A, D, F: A * 2.5, "A/2": lambda A, D, F: A / 2, "A/0.5": lambda A, D, F: A / 0.5,
    "-A": lambda A, D, F: -A, "3*A": lambda A, D, F: 3 * A, "(1+2j)*A": lambda A, D, F: (1 + 2j) * A, "np.float32(0.5)*A": lambda A, D, F: np.float32(0.5) * A,
    "2.5*D": lambda A, D, F: 2.5 * D, "D/4": lambda A, D, F: D / 4, "A+F": lambda A, D, F: A + F, "A-0.5*F": lambda A, D, F: A - 0.5 * F,
    "A@F": lambda A, D, F: A @ F, "A@D": lambda A, D, F: A @ D, "kron(A,F)": lambda A, D, F: cola.kron(A, F), "kron(D,A)": lambda A, D, F: cola.kron(D, A),
    "kronsum(A,F)": lambda A, D, F: cola.kronsum(A, F), "block_diag(A,F)": lambda A, D, F: cola.block_diag(A, F), "0.5*(A+D)": lambda A, D, F: 0.5 * (A + D),
    "(A@D)/3": lambda A, D, F: (A @ D) / 3, "A.T*1.5": lambda A, D, F: A.T * 1.5,
}


def run_int(case, seed):
    """integer-dtype operators (Dense / Diagonal built from integer arrays) in scalar and mixed algebra: NumPy's value and dtype are the reference"""
    _, name = case
    g = P.rng(seed, "c03int")
    Mi, di = P.ints(g, (3, 3), -4, 4).astype(np.int64), P.ints(g, (3, ), -4, 4, nonzero=True).astype(np.int64)
    Mf = P.ints(g, (3, 3), -3, 3).astype(np.float64) / 2
    fn = INT_EXPRS[name]
    vio = []
    with warnings.catch_warnings():
        warnings.simplefilter("ignore")

        import scipy.linalg as sl
        ns = {"np": np, "A": Mi, "D": np.diag(di), "F": Mf, "kron": np.kron, "block_diag": sl.block_diag,
              "kronsum": lambda a, b: np.kron(a, np.eye(b.shape[0])) + np.kron(np.eye(a.shape[0]), b)}
        want = eval(name, ns)  # the same source text, evaluated on the matrices
        try:
            op = fn(ops.Dense(Mi.copy()), ops.Diagonal(di.copy()), ops.Dense(Mf.copy()))
            got = np.asarray(op.to_dense())
            x = np.array([1.5, -2.0, 0.5] * (want.shape[1] // 3))
            y = np.asarray(op @ x)
            if got.shape != want.shape or not np.allclose(got, want, rtol=1e-12, atol=1e-12):
                vio.append({"key": f"C03|integer-operator|to_dense|value|{name}", "what": f"{name} on integer-dtype operators: wrong matrix", "detail": {"got": short(got), "want": short(want)}})
            elif not np.allclose(y, want @ x, rtol=1e-12, atol=1e-12):
                vio.append({"key": f"C03|integer-operator|matmul|value|{name}", "what": f"({name}) @ x on integer-dtype operators: wrong product", "detail": {"got": short(y), "want": short(want @ x)}})
            elif np.dtype(op.dtype).kind != np.dtype(want.dtype).kind:
                vio.append({"key": f"C03|integer-operator|dtype-kind|{name}", "what": f"{name}: operator dtype {op.dtype}, NumPy gives {want.dtype}", "detail": {"got": str(op.dtype), "want": str(want.dtype)}})
        except Exception as e:
            vio.append({"key": f"C03|integer-operator|exc:{type(e).__name__}|{name}", "what": f"{name} on integer-dtype operators raised", "detail": {"msg": str(e)[:300]}})
    return {"transitions": 3, "outcome": f"int:{name}:{len(vio)}", "violations": vio}


def cases(tier, seed):
    terms, info = gen(tier)
    info["integer_operator_expressions"] = len(INT_EXPRS)
    _DESC.update(info)
    # pairs of dtype-only operators where NEITHER side has the promoted dtype (float64 with complex64)
    mixed = []
    for a, b in (("f8", "c8"), ("c8", "f8")):
        for ka, kb in (("Identity", "Identity"), ("Identity", "Scalar"), ("Scalar", "Identity"), ("Scalar", "Scalar")):
            mk = lambda k, tok: ["Identity", 3, tok] if k == "Identity" else ["Scalar", "m3", 3, tok]  # noqa: E731
            for op in ("matmul", "add", "kron"):
                mixed.append([op, mk(ka, a), mk(kb, b)])
    info["mixed_precision_identity_scalar_pairs"] = len(mixed)
    return terms + mixed + [["INT", n] for n in INT_EXPRS]


def run_case(term, seed):
    if term[0] == "INT":
        return run_int(term, seed)
    return CHECKER.run(term, seed)


def case_signature(case):
    return "INT," + case[1] if case[0] == "INT" else sig(case)


def describe(tier, seed):
    return {
        "bound": "expressions of size<=1 over L_full (all 10 scalars, 3 divisors, mixed ndarray operands), size<=2 over L_small"
                 + (", size<=2 over L_mid, size<=3 over L_small (capped)" if tier == "thorough" else "")
                 + "; scalar/operator on 17 invertible operators x 5 scalars; every ordered pair of leaves with incompatible shapes "
                   "x {+, -, @, Sum, Product, sum()}",
        "alphabet": _DESC, "scalars": SCALAR_IDS, "divisors": DIV_IDS[:3], "reject_forms": REJECT_FORMS,
        "oracle": "bit-exact dense matrix / shape / admissible dtype of the expression; differential against raw constructors; "
                  "mismatched operands must raise",
        "exhaustive": not _DESC.get("L_small", {}).get("size3_cap_hit", False),
    }
