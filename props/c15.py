"""C15 -- Arnoldi returns an orthonormal Krylov basis satisfying the Arnoldi relation."""
import hashlib
import warnings

import numpy as np

import cola.linalg as L
from cola import ops
from cola.linalg.decompositions.arnoldi import arnoldi, arnoldi_eigs
from mc import krylov as K
from mc import payload as P
from mc.termcheck import short

PROPERTY = "C15"
PAYLOAD_SEEDS = {"thorough": [0, 1, 2, 3]}  # the thorough tier repeats the whole enumeration for four payload seeds
ASSUMPTIONS = [
    "tolerances: orthonormality 1e-8, Arnoldi relation 1e-8 ||A||, eigenvalues from arnoldi_eigs 1e-7 ||A||",
    "weakest reading at m = n and at a breakdown of dimension d: n + 1 orthonormal columns cannot exist, so the first min(m+1, n, d) columns "
    "must be orthonormal, the relation A Q[:, :m] = Q H must hold, and a column beyond the Krylov dimension must carry no weight "
    "(|h_{j+1,j}| ||q_{j+1}|| <= 1e-8 ||A||)",
    "for m > n: the leading n-step block equals the m = n result and every extra row / column of H and column of Q is exactly zero",
    "NumPy backend; the batched path runs through the harness vmap shim",
]


def operator(fam, n, cplx, seed):
    base, _, scale = fam.partition("@")  # "@tiny" / "@huge": the same family at scale 2^-45 / 2^40 (every tolerance of C15 is relative)
    if scale:
        _, M, lam, V = operator(base, n, cplx, seed)
        f = {"tiny": 2.0**-45, "huge": 2.0**40}[scale]
        return ops.Dense(M * f), M * f, lam * f, V
    if fam == "nonnormal":
        lam = np.linspace(1, 6, n) * np.where(np.arange(n) % 3 == 2, -1, 1)
        if cplx:
            lam = lam * np.exp(1j * np.linspace(0, 1.2, n))
        M, V = K.diagonalizable(seed, n, lam, cplx, 3.0, "c15nn")
    elif fam == "normal":
        lam = (1 + np.linspace(0, 4, n)) * np.exp(1j * np.linspace(-1.2, 1.2, n))
        Q = K.unitary(seed, n, True, "c15n")
        M, V = (Q * lam[None, :]) @ Q.conj().T, Q
    elif fam == "int":
        M = P.dense(seed, (n, n), "c16" if cplx else "f8", "wc").astype(np.complex128 if cplx else np.float64)
        lam, V = np.linalg.eig(M)
    else:
        raise ValueError(fam)
    return ops.Dense(M), M, lam, V


def start(vkind, n, M, V, seed):
    cplx = np.iscomplexobj(M)
    g = P.rng(seed, "c15v", vkind, n, cplx)
    rnd = lambda *s: g.standard_normal(s) + (1j * g.standard_normal(s) if cplx else 0)  # noqa: E731
    if vkind == "rand":
        return rnd(n), n
    if vkind == "cplxvec":  # a complex start vector, also on a real operator (the basis lives in the promoted, complex dtype)
        return g.standard_normal(n) + 1j * g.standard_normal(n), n
    if vkind == "lowp":  # a start vector in a narrower dtype than the operator: the decomposition is computed in the promoted dtype
        return rnd(n).astype(np.complex64 if cplx else np.float32), n
    if vkind == "intvec":
        v = P.ints(g, (n, ), -3, 3, nonzero=True).astype(np.int64)
        # an integer vector may lie in an invariant subspace of an integer matrix: the Krylov dimension is its exact rational rank
        if np.all(M == np.round(M.real)):
            from fractions import Fraction
            rows, w = [], [Fraction(int(x)) for x in v]
            Mi = [[Fraction(int(round(x.real))) for x in r] for r in M]
            for _ in range(n):
                rows.append(list(w))
                w = [sum(Mi[i][j] * w[j] for j in range(n)) for i in range(n)]
            rank = 0
            for col in range(n):
                piv = next((r for r in range(rank, n) if rows[r][col] != 0), None)
                if piv is None:
                    continue
                rows[rank], rows[piv] = rows[piv], rows[rank]
                for r in range(rank + 1, n):
                    f = rows[r][col] / rows[rank][col]
                    rows[r] = [a - f * b for a, b in zip(rows[r], rows[rank])]
                rank += 1
            if rank < n:
                return None, None  # counted, not judged: the eigen-structure of that subspace is not prescribed
        return v, n
    if vkind == "batch":
        return rnd(n, 2), n
    if vkind == "batchmix":  # a vector in a 1-dimensional invariant subspace next to a generic one
        v0 = V[:, 0]
        if not cplx and np.max(np.abs(v0.imag)) > 1e-12:
            return None, None
        B = np.stack([(v0 if cplx else v0.real) * 2.0, rnd(n)], axis=1)
        return B, n
    if vkind == "default":
        return None, n
    d = min({"inv1": 1, "inv2": 2, "inv3": 3}[vkind], n)
    v = V[:, :d] @ (1.0 + np.arange(d))
    if not cplx:
        if np.max(np.abs(v.imag)) > 1e-12:
            return None, None  # complex eigenvectors of a real matrix: no real vector in that invariant subspace
        v = v.real
    return v, d


def check_one(M, v, Qd, Hd, m, d_inv, bad, normA, ref_n=None):
    n = M.shape[0]
    if Qd.shape != (n, m + 1) or Hd.shape != (m + 1, m):
        bad("shape", {"Q": list(Qd.shape), "H": list(Hd.shape), "want": [[n, m + 1], [m + 1, m]]})
        return
    if not (np.all(np.isfinite(Qd)) and np.all(np.isfinite(Hd))):
        bad("nonfinite", {})
        return
    if v is not None:
        v = v.astype(np.complex128)  # the reference is formed in double precision whatever dtype the caller's vector has
    if v is not None and np.linalg.norm(Qd[:, 0] - v / np.linalg.norm(v)) > 1e-10:
        bad("first-column-is-not-v/|v|", {"err": float(np.linalg.norm(Qd[:, 0] - v / np.linalg.norm(v)))})
    if np.max(np.abs(np.tril(Hd, -2)), initial=0.0) > 0:
        bad("H-not-upper-Hessenberg", {})
    sub = np.diag(Hd, -1) if m >= 1 else np.array([])
    if np.any(np.abs(sub.imag) > 1e-12 * normA) or np.any(sub.real < -1e-12 * normA):
        bad("H-subdiagonal-not-nonnegative", {"sub": [complex(x) for x in sub[:8]]})
    k = min(m + 1, n, d_inv)  # columns that must be orthonormal
    G = Qd[:, :k].conj().T @ Qd[:, :k]
    if np.max(np.abs(G - np.eye(k))) > 1e-8:
        bad("Q-not-orthonormal", {"err": float(np.max(np.abs(G - np.eye(k)))), "columns_required": k})
    mm = min(m, n)
    # for m > n only n steps exist: A Q[:, :n] = Q[:, :n+1] H[:n+1, :n]
    R = M @ Qd[:, :mm] - Qd[:, :mm + 1] @ Hd[:mm + 1, :mm]
    if np.max(np.abs(R), initial=0.0) > 1e-8 * normA:
        bad("arnoldi-relation-violated", {"err": float(np.max(np.abs(R)) / normA)})
    if k < m + 1 and k <= mm:
        # the column after the Krylov dimension must carry no weight in the relation
        w = abs(Hd[k, k - 1]) * np.linalg.norm(Qd[:, k])
        if w > 1e-8 * normA:
            bad("column-beyond-the-Krylov-space-carries-weight", {"weight": float(w / normA), "column": k})
    if m > n:
        if np.any(Hd[:, n:] != 0) or np.any(Hd[n + 1:, :] != 0) or np.any(Qd[:, n + 1:] != 0):
            bad("padding-not-zero-for-max_iters>n", {"H_extra_cols": float(np.max(np.abs(Hd[:, n:]))), "H_extra_rows": float(np.max(np.abs(Hd[n + 1:, :]), initial=0.0)),
                                                      "Q_extra_cols": float(np.max(np.abs(Qd[:, n + 1:]), initial=0.0))})
        if ref_n is not None:
            Qn, Hn = ref_n
            if np.max(np.abs(Qd[:, :n + 1] - Qn)) > 1e-12 or np.max(np.abs(Hd[:n + 1, :n] - Hn)) > 1e-12 * normA:
                bad("m>n-differs-from-m=n", {})


def run_option(case, seed):
    """the Householder variant of arnoldi(): one start vector, every max_iters in 1..n+1; the decomposition must satisfy the same relations"""
    _, opt, n, cplx = case
    A, M, lam, V = operator("nonnormal", n, cplx, seed)
    v, _ = start("rand", n, M, V, seed)
    vio, ntr = [], 0

    def bad(sym, detail):
        key = f"C15|option:{opt}|{sym}"
        if not any(x["key"] == key for x in vio):
            vio.append({"key": key, "what": f"arnoldi(..., {opt}=True): {sym}", "detail": {**detail, "n": n, "complex": cplx}})

    with warnings.catch_warnings():
        warnings.simplefilter("ignore")
        for m in range(1, n + 2):
            ntr += 1
            try:
                Q, H, _ = arnoldi(A, v.copy(), max_iters=m, tol=1e-12, **{opt: True})
                Qd, Hd = np.asarray(Q.to_dense()), np.asarray(H.to_dense())
            except Exception as e:
                bad(f"exc:{type(e).__name__}", {"msg": str(e)[:200], "max_iters": m})
                continue
            j = min(m, n)
            if Qd.ndim != 2 or Qd.shape[0] != n or Qd.shape[1] < j or Hd.shape[0] < j or Hd.shape[1] < j:
                bad("shape", {"Q": list(Qd.shape), "H": list(Hd.shape), "max_iters": m})
                continue
            Qj, Hj = Qd[:, :j], Hd[:j, :j]
            if np.max(np.abs(Qj.conj().T @ Qj - np.eye(j))) > 1e-8:
                bad("Q-not-orthonormal", {"max_iters": m})
            elif np.max(np.abs(Qj.conj().T @ M @ Qj - Hj)) > 1e-8 * np.linalg.norm(M, 2):
                bad("H-is-not-Q^H-A-Q", {"max_iters": m})
    return {"states": n + 1, "transitions": ntr, "outcome": f"opt:{opt}:{len(vio)}", "violations": vio}


def run_scale(case, seed):
    """a batch whose columns live at different scales of the operator: A = blockdiag(2^30 B1, B2), one generic start vector and one supported on the
    second block.  Every per-column quantity (exhaustion test, normalisation) must use that column's own scale: the batched decomposition of a column
    has to agree with the decomposition of the same vector run alone, on the columns of its own Krylov space."""
    _, n1, n2, cplx, tol = case
    g = P.rng(seed, "c15scale", n1, n2, cplx)
    rnd = lambda *s: g.standard_normal(s) + (1j * g.standard_normal(s) if cplx else 0)  # noqa: E731
    B1, B2 = rnd(n1, n1) + 3 * np.eye(n1), rnd(n2, n2) + 3 * np.eye(n2)
    n = n1 + n2
    M = np.zeros((n, n), dtype=B1.dtype)
    M[:n1, :n1], M[n1:, n1:] = 2.0**30 * B1, B2
    v0, v1 = rnd(n), np.concatenate([np.zeros(n1), rnd(n2)])
    Vb = np.stack([v0, v1], axis=1)
    vio, ntr = [], 0

    def bad(sym, detail, m):
        key = f"C15|batch-columns-at-different-scales|{sym}|{'c' if cplx else 'r'},tol={tol}"
        if not any(x["key"] == key for x in vio):
            vio.append({"key": key, "what": f"batched arnoldi, columns at different operator scales: {sym}", "detail": {**detail, "max_iters": m, "n1": n1, "n2": n2}})

    with warnings.catch_warnings():
        warnings.simplefilter("ignore")
        from cola.backends import np_fns
        for m in range(2, n + 2):
            ntr += 1
            try:
                Qb, Hb, _ = arnoldi(ops.Dense(M), Vb.copy(), max_iters=m, tol=tol)
                Qb = np.asarray(Qb.to_dense())
                Hb = np.asarray(np_fns.vmap(Hb.__class__.to_dense)(Hb))
                Q1, H1, _ = arnoldi(ops.Dense(M), v1.copy(), max_iters=m, tol=tol)
                Q1, H1 = np.asarray(Q1.to_dense()), np.asarray(H1.to_dense())
            except Exception as e:
                bad(f"exc:{type(e).__name__}", {"msg": str(e)[:200]}, m)
                continue
            k = min(m, n2)  # Krylov dimension of the second column within the cap
            Qc, Hc = Qb[1][:, :k], Hb[1][:k, :k]
            if np.max(np.abs(Qc.conj().T @ Qc - np.eye(k))) > 1e-8:
                bad("Q-not-orthonormal-on-its-own-Krylov-space", {"err": float(np.max(np.abs(Qc.conj().T @ Qc - np.eye(k)))), "column_norms": np.linalg.norm(Qc, axis=0).tolist()}, m)
            elif np.max(np.abs(Qc.conj().T @ M @ Qc - Hc)) > 1e-8 * np.linalg.norm(B2, 2):
                bad("H-is-not-Q^H-A-Q-at-the-column-scale", {"err": float(np.max(np.abs(Qc.conj().T @ M @ Qc - Hc)))}, m)
            if Q1.shape[1] >= k and np.max(np.abs(Q1[:, :k] - Qc)) > 1e-7:
                bad("batched-column-differs-from-the-same-vector-alone", {"err": float(np.max(np.abs(Q1[:, :k] - Qc)))}, m)
    return {"states": n, "transitions": ntr * 3, "outcome": f"scale:{len(vio)}", "violations": vio}


def run_case(case, seed):
    if case[0] == "OPT":
        return run_option(case, seed)
    if case[0] == "SCALE":
        return run_scale(case, seed)
    fam, n, cplx, vkind, tol, entry, ms = case
    vio, ntr = [], 0
    h = hashlib.sha256()
    base = f"{fam},{'c' if cplx else 'r'},{vkind},tol={tol},{entry}"
    with warnings.catch_warnings():
        warnings.simplefilter("ignore")
        A, M, lam, V = operator(fam, n, cplx, seed)
        v, d_inv = start(vkind, n, M, V, seed)
        if d_inv is None:
            return {"states": 0, "transitions": 0, "outcome": "no-real-vector-in-that-subspace", "violations": []}
        normA = max(float(np.linalg.norm(M, 2)), 1e-300)
        ref_n = None
        if entry == "arnoldi" and vkind not in ("batch", "batchmix") and any(m > n for m in ms):
            try:
                Qn, Hn, _ = arnoldi(A, None if v is None else v.copy(), max_iters=n, tol=tol)
                ref_n = (np.asarray(Qn.to_dense()), np.asarray(Hn.to_dense()))
            except Exception:
                ref_n = None
        for m in ms:
            ntr += 1
            rel = "m<n" if m < n else ("m=n" if m == n else "m>n")

            def bad(check, detail):
                key = f"C15|{check}|{base}|{rel}"
                if not any(x["key"] == key for x in vio):
                    vio.append({"key": key, "what": f"{check}: {base} n={n} max_iters={m}", "detail": {**detail, "n": n, "max_iters": m, "case": case[:6]}})

            v_in = None if v is None else v.copy()
            try:
                if entry == "arnoldi":
                    Q, H, info = arnoldi(A, v_in, max_iters=m, tol=tol)
                elif entry == "Arnoldi()":
                    Q, H, info = L.Arnoldi(start_vector=v_in, max_iters=m, tol=tol)(A)
                else:
                    vals, Vec, info = arnoldi_eigs(A, v_in, max_iters=m, tol=tol)
            except Exception as e:
                bad(f"exc:{type(e).__name__}", {"msg": str(e)[:300]})
                continue
            if v is not None and not np.array_equal(v, v_in):
                bad("start-vector-mutated", {})
            if entry == "arnoldi_eigs":
                vals = np.asarray(vals).reshape(-1)
                Vd = np.asarray(Vec.to_dense())
                if Vd.shape != (n, vals.shape[0]):
                    bad("eigs-shape", {"values": list(vals.shape), "vectors": list(Vd.shape)})
                    continue
                if not (np.all(np.isfinite(vals)) and np.all(np.isfinite(Vd))):  # NaN compares False with every threshold below
                    bad("eigs-nonfinite", {})
                    continue
                if m >= n and d_inv == n and np.linalg.cond(V) > 1e3:
                    pass  # (nearly) defective integer payload for this seed: eigenvalues are ill conditioned, spectrum comparison not judged
                elif m >= n and d_inv == n:
                    from props.c10 import multiset_dist
                    if vals.shape[0] != n or multiset_dist(vals, lam) > 1e-7 * normA:
                        bad("eigs-at-m>=n-not-the-spectrum", {"got": [complex(x) for x in vals][:10], "count": int(vals.shape[0]), "n": n})
                    else:
                        res = np.linalg.norm(M @ Vd - Vd * vals[None, :], axis=0)
                        if np.any(res > 1e-7 * normA * np.maximum(np.linalg.norm(Vd, axis=0), 1e-300)) or np.any(np.linalg.norm(Vd, axis=0) == 0):
                            bad("eigs-vectors-not-eigenvectors", {"residual": float(np.max(res) / normA)})
                elif d_inv < n and m >= d_inv:
                    # breakdown: the d eigenvalues of the invariant subspace must be returned; if the run stopped there nothing else may
                    # be; if rounding hid the breakdown from the tolerance (more than d values) the rest are Ritz values of the continued
                    # run, but never the exact zeros of unused padding
                    inv_lam = lam[:d_inv]
                    miss = [complex(x) for x in inv_lam if np.min(np.abs(vals - x)) > 1e-6 * normA]
                    if miss:
                        bad("eigs-misses-eigenvalues-of-the-invariant-subspace", {"missing": miss, "got": [complex(x) for x in vals][:10]})
                    if vals.shape[0] <= d_inv:
                        dist = [float(np.min(np.abs(lam - x))) for x in vals]
                        if max(dist, default=0.0) > 1e-6 * normA:
                            bad("eigs-spurious-values-after-breakdown", {"got": [complex(x) for x in vals][:10], "invariant_dim": d_inv})
                    elif np.any(vals == 0) and np.min(np.abs(lam)) > 1e-8 * normA:
                        bad("eigs-spurious-zero-from-padding", {"got": [complex(x) for x in vals][:10], "invariant_dim": d_inv})
                h.update(np.round(np.sort_complex(vals.astype(np.complex128)) / normA, 6).tobytes())
                continue
            Qd, Hd = np.asarray(Q.to_dense()), np.asarray(H.to_dense())
            if vkind in ("batch", "batchmix"):
                if Qd.ndim != 3 or Qd.shape[0] != 2:
                    bad("batch-shape", {"Q": list(Qd.shape)})
                    continue
                for c in range(2):
                    check_one(M, v[:, c], Qd[c], Hd[c], m, 1 if (vkind == "batchmix" and c == 0) else d_inv, bad, normA)
            else:
                check_one(M, v, Qd, Hd, m, d_inv, bad, normA, ref_n)
            h.update(np.round(np.abs(Hd) / normA, 6).tobytes())
    return {"states": len(ms), "transitions": ntr * 8, "outcome": h.hexdigest()[:12], "violations": vio}


_DESC = {}


def cases(tier, seed):
    out = []
    small = [1, 2, 3, 4, 5, 6]
    big = [12, 40] if tier == "quick" else [12, 40, 200]
    for fam, cplxs in (("nonnormal", (False, True)), ("normal", (True, )), ("int", (False, True)), ("nonnormal@tiny", (False, True)), ("normal@huge", (True, ))):
        for n in small + (big if fam != "int" else []):
            ms = list(range(1, n + 4)) if n <= 6 else sorted({1, 2, 5, n, n + 1, n + 5, 1000})
            for cplx in cplxs:
                for vk in ("rand", "inv1", "inv2", "inv3", "batch", "batchmix", "default", "lowp", "intvec", "cplxvec"):
                    if vk in ("lowp", "intvec", "cplxvec") and "@" in fam:
                        continue
                    if vk == "batchmix" and n < 3:
                        continue
                    if fam == "int" and vk.startswith("inv") and not cplx:
                        continue
                    for tol in (1e-12, 1e-7):
                        for entry in ("arnoldi", "arnoldi_eigs", "Arnoldi()"):
                            if vk in ("batch", "batchmix") and entry != "arnoldi":
                                continue
                            if tier == "quick" and n > 6 and not (tol == 1e-12 and entry != "Arnoldi()" and vk in ("rand", "inv2", "batch", "batchmix")):
                                continue
                            if n == 200 and not (entry == "arnoldi" and vk in ("rand", "inv3") and tol == 1e-12):
                                continue
                            out.append([fam, n, cplx, vk, tol, entry, ms])
    _DESC.update({"configurations": len(out), "runs": sum(len(c[-1]) for c in out), "sizes": small + big})
    for n in (3, 5, 8):
        for cplx in (False, True):
            out.append(["OPT", "use_householder", n, cplx])
    for n1, n2 in ((3, 3), (4, 2), (2, 5)):
        for cplx in (False, True):
            for tol in (1e-12, 1e-7, 1e-3):
                out.append(["SCALE", n1, n2, cplx, tol])
    return out


def case_signature(case):
    return ",".join(map(str, case[:6]))


def describe(tier, seed):
    return {
        "bound": "square operators {non-normal real / complex with prescribed eigenvectors, complex normal, integer diagonally dominant}, n in "
                 + str(_DESC.get("sizes")) + "; start vectors {random, in a 1-, 2-, 3-dimensional invariant subspace, 2-column batch, default keyed}; every "
                 "max_iters in 1..n+3 (n<=6) / {1,2,5,n,n+1,n+5,1000}; tol in {1e-12, 1e-7}; entry points arnoldi, arnoldi_eigs, Arnoldi()(A)",
        "alphabet": _DESC,
        "oracle": "shapes n x (m+1) and (m+1) x m; first column v/|v|; H upper Hessenberg with sub-diagonal >= 0; the required leading columns "
                  "orthonormal; A Q[:, :m] = Q H; no weight beyond the Krylov dimension; zero padding and equality with the m = n result for m > n; "
                  "arnoldi_eigs at m >= n returns the spectrum with residual-checked vectors and nothing spurious after a breakdown",
    }
