"""C12 -- CG returns the Krylov-optimal iterate and honours its stopping contract.

The solver is a deterministic transition system: cg(..., tol -> 0, max_iters=k) is the k-step prefix of every longer run, so every
truncation point of every enumerated run is a checked state."""
import hashlib
import warnings

import numpy as np

import cola
import cola.linalg as L
from cola import ops
from cola.linalg.inverse.cg import cg
from mc import krylov as K
from mc import payload as P
from mc.termcheck import short

PROPERTY = "C12"
PAYLOAD_SEEDS = {"thorough": [0, 1, 2, 3]}  # the thorough tier repeats the whole enumeration for four payload seeds
ASSUMPTIONS = [
    "optimality is compared with an independent optimum: exact rationals for integer SPD / Hermitian systems with n <= 6 (complex through the "
    "real embedding), fully re-orthogonalised float64 otherwise and only where cond <= 1e3 and k <= 25 (finite-precision CG departs from the "
    "exact-arithmetic optimum beyond that; there only caps, stopping, zero handling, scaling and error decrease are checked)",
    "the public function does not return the recursive residual: the true residual is used and states within (1 +- 1e-6) of the threshold are "
    "classified borderline, skipped and counted",
    "info['iterations'] may count steps or loop tests (a constant offset in {0, 1}); info['errors'] may omit leading entries",
    "NumPy backend only",
]
TINY = 1e-200


class Counting:
    def __init__(self, M, psd=True):
        self.M = M
        self.calls = 0
        op = ops.LinearOperator(M.dtype, M.shape, matmat=self._mm)
        self.op = cola.PSD(op) if psd else op

    def _mm(self, X):
        self.calls += 1
        return self.M @ X


def system(fam, n, cplx, spec, seed):
    if fam == "int":
        M = P.dense(seed, (n, n), "c16" if cplx else "f8", "spd")
        M = M.astype(np.complex128 if cplx else np.float64)
        return M, None, None
    base, _, scale = spec.partition("@")  # "@tiny" / "@huge": the same spectrum at scale 2^-45 / 2^40 (the contract is relative to ||b||, ||A||)
    lam = K.spectrum(base, n, seed) * {"": 1.0, "tiny": 2.0**-45, "huge": 2.0**40}[scale]
    A, Q = K.hermitian(seed, n, lam, cplx, "c12" + base)
    return A, Q, lam


def rhs(bkind, M, Q, seed, exact):
    n = M.shape[0]
    c = np.iscomplexobj(M)
    g = P.rng(seed, "c12rhs", bkind, n, c)
    if exact:
        rnd = lambda *s: P.ints(g, s, -3, 3, cplx=c, nonzero=True)  # noqa: E731
    else:
        rnd = lambda *s: g.standard_normal(s) + (1j * g.standard_normal(s) if c else 0)  # noqa: E731
    if bkind == "one":
        return rnd(n)
    if bkind == "lowp":  # right-hand sides in a NARROWER dtype than the operator (float32 / complex64): the solve runs in the promoted dtype
        return rnd(n, 2).astype(np.complex64 if c else np.float32)
    if bkind == "intrhs":
        return P.ints(g, (n, ), -3, 3, nonzero=True).astype(np.int64)
    if bkind == "three":
        return rnd(n, 3) * np.array([2.0**-20, 1.0, 2.0**20])[None, :]
    if bkind == "zerocol":
        B = rnd(n, 3)
        B[:, 1] = 0
        return B
    if bkind == "allzero":
        return np.zeros((n, 2), dtype=M.dtype)
    if bkind == "mixcols":  # heterogeneous batch: an eigenvector (converges in one step), a generic column, a zero column
        if Q is None:
            w_, Q_ = np.linalg.eigh(M)
        else:
            Q_ = Q
        B = np.stack([Q_[:, 0] * 2.0, rnd(n) + 0 * Q_[:, 0], np.zeros(n)], axis=1)
        return B.astype(M.dtype) if np.iscomplexobj(M) else B.real.astype(M.dtype)
    if bkind == "zero1d":
        return np.zeros(n, dtype=M.dtype)
    if bkind == "eig1":
        return (Q[:, 0] * 2.0).astype(M.dtype)
    if bkind == "eig2":
        return (Q[:, 0] + 3.0 * Q[:, n // 2]).astype(M.dtype)
    raise ValueError(bkind)


def precond(pkind, M, seed):
    n = M.shape[0]
    if pkind == "none":
        return None, None
    if pkind == "jacobi":
        d = 1.0 / np.diag(M).real
        return ops.Diagonal(d.astype(M.dtype)), np.diag(d).astype(M.dtype)
    if pkind == "dense":
        g = P.rng(seed, "c12P", n)
        B = P.ints(g, (n, n), -1, 1)
        Pm = (B @ B.T + n * np.eye(n)) / 4.0
        return cola.PSD(ops.Dense(Pm.astype(M.dtype))), Pm.astype(M.dtype)
    if pkind == "nystrom":
        from cola.linalg.preconditioning.preconditioners import NystromPrecond
        Pop = NystromPrecond(cola.PSD(ops.Dense(M)), rank=min(3, n), key=5)
        return Pop, np.asarray(Pop.to_dense())
    raise ValueError(pkind)


def a_norm(M, e):
    return np.sqrt(np.maximum(0.0, np.einsum("ij,ij->j", e.conj(), M @ e).real))


def run_case(case, seed):
    fam, n, cplx, spec, bkind, x0kind, pkind, ms = case
    exact = fam == "int" and n <= 6
    vio = []
    ntr = 0
    h = hashlib.sha256()
    notes = {"borderline_skipped": 0, "optimality_checked": 0, "optimality_not_judged_illconditioned": 0}
    base = f"{fam},{'c' if cplx else 'r'},{spec},{bkind},x0={x0kind},P={pkind}"

    def bad(check, detail, extra=""):
        key = f"C12|{check}|{base}{extra}"
        if not any(v["key"] == key for v in vio):
            vio.append({"key": key, "what": f"{check}: {base} n={n}", "detail": {**detail, "n": n, "case": case[:7]}})

    with warnings.catch_warnings():
        warnings.simplefilter("ignore")
        M, Q, lam = system(fam, n, cplx, spec, seed)
        b = rhs(bkind, M, Q, seed, exact)
        Pop, Pm = precond(pkind, M, seed)
        g = P.rng(seed, "c12x0", n, cplx)
        if x0kind == "none":
            x0 = None
        elif x0kind == "zero":
            x0 = np.zeros_like(b)
        elif x0kind == "rand":
            x0 = (P.ints(g, b.shape, -2, 2, cplx=cplx) if exact else g.standard_normal(b.shape) + (1j * g.standard_normal(b.shape) if cplx else 0)).astype(b.dtype)
        else:
            x0 = np.linalg.solve(M, b)
        B = (b if b.ndim == 2 else b[:, None]).astype(np.result_type(b.dtype, M.dtype))
        X0 = np.zeros_like(B) if x0 is None else (x0 if x0.ndim == 2 else x0[:, None])
        Xs = np.linalg.solve(M, B)
        bn = np.linalg.norm(B, axis=0)
        r0n = np.linalg.norm(B - M @ X0, axis=0)
        xsA = a_norm(M, Xs)
        wellcond = (lam is None) or (np.max(lam) / np.min(lam) <= 1e3 + 1)
        condA = float(np.linalg.cond(M))
        # the solver tests its *recursive* residual; it tracks the true one only down to ~ eps * cond(A) * (||r0|| + ||b||):
        # thresholds below 100x that level are not judged (counted in the evidence)
        attainable = 1e-14 * condA * (1 + np.where(bn > 0, r0n / np.where(bn > 0, bn, 1), 0.0))

        def run(max_iters, tol, bb=None, xx0="same", entry="cg"):
            cnt = Counting(M)
            bb = b.copy() if bb is None else bb
            xx = (None if x0 is None else x0.copy()) if isinstance(xx0, str) else xx0
            b_in, x_in = bb.copy(), (None if xx is None else xx.copy())
            if entry == "cg":
                x, info = cg(cnt.op, bb, x0=xx, P=Pop, tol=tol, max_iters=max_iters)
            else:
                opinv = L.inv(cnt.op, L.CG(tol=tol, max_iters=max_iters, x0=xx, P=Pop))
                x = opinv @ bb
                info = opinv.info
            if not np.array_equal(bb, b_in) or (xx is not None and not np.array_equal(xx, x_in)):
                bad("input-mutated", {"max_iters": max_iters})
            return np.asarray(x), info, cnt.calls

        # ---- prefix chain: every truncation point is a state
        prefix = {}
        prev_err = None
        iter_offsets = set()
        for m in ms:
            ntr += 1
            try:
                x, info, calls = run(m, TINY)
            except Exception as e:
                bad(f"exc:{type(e).__name__}", {"msg": str(e)[:300], "max_iters": m})
                return {"states": len(ms), "transitions": ntr, "outcome": "exc", "violations": vio}
            if x.shape != b.shape:
                bad("shape", {"got": list(x.shape), "want": list(b.shape)})
                return {"states": len(ms), "transitions": ntr, "outcome": "shape", "violations": vio}
            X = x if x.ndim == 2 else x[:, None]
            prefix[m] = X
            s = calls - 1
            if calls > m + 1 or (m == 0 and calls != 1):
                bad("cap", {"max_iters": m, "block_products": calls})
            iter_offsets.add(int(info["iterations"]) - s)
            err = a_norm(M, X - Xs)
            zero_cols = bn == 0
            if np.any(zero_cols) and np.any(X[:, zero_cols] != 0):
                bad("zero-rhs-not-exactly-zero", {"max_iters": m, "x": short(X[:, zero_cols])})
            if not np.all(np.isfinite(X)):
                bad("nonfinite", {"max_iters": m})
                continue
            # (i) optimality over x0 + K_m(PA, P r0), per column
            for j in range(B.shape[1]):
                if bn[j] == 0 and x0 is None:
                    continue
                if exact:
                    if cplx:
                        o2, xs2 = K.exact_min_anorm_err_sq(K.real_embed(M), K.real_embed(B[:, j]), K.real_embed(X0[:, j]), s,
                                                           None if Pm is None else K.real_embed(Pm))
                    else:
                        o2, xs2 = K.exact_min_anorm_err_sq(M, B[:, j], X0[:, j], s, Pm)
                    opt, xsn = np.sqrt(max(o2, 0.0)), np.sqrt(max(xs2, 0.0))
                elif wellcond and s <= 25:
                    opt, xsn = K.float_min_anorm_err(M, B[:, j], X0[:, j], s, Pm)
                else:
                    notes["optimality_not_judged_illconditioned"] += 1
                    continue
                notes["optimality_checked"] += 1
                e0 = float(a_norm(M, (X0 - Xs)[:, [j]])[0])
                ref_scale = max(xsn, e0)
                if opt < 1e-6 * ref_scale:
                    # converged regime: forcing further steps (tol -> 0) iterates on rounding noise, which CG does not damp; only
                    # require that the iterate stays converged
                    notes["optimality_converged_regime"] = notes.get("optimality_converged_regime", 0) + 1
                    if err[j] > 1e-5 * ref_scale:
                        bad("left-converged-regime", {"steps": s, "column": j, "err_A": float(err[j]), "optimum": float(opt), "scale": float(ref_scale)})
                    continue
                slack = 1e-9 * ref_scale
                if err[j] > (1 + 1e-6) * opt + slack:
                    bad("not-krylov-optimal", {"steps": s, "column": j, "err_A": float(err[j]), "optimum": float(opt), "x*_A": float(xsn), "e0_A": e0})
            # (vii) monotone A-norm error along the chain (well conditioned regime)
            if prev_err is not None and wellcond:
                if np.any(err > prev_err * (1 + 1e-6) + 1e-9 * np.maximum(xsA, a_norm(M, X0 - Xs))):
                    bad("error-not-monotone", {"max_iters": m, "err": err.tolist(), "previous": prev_err.tolist()})
            prev_err = err
            h.update(np.round(err / (xsA + 1e-300), 8).tobytes())
        if len(iter_offsets) > 1 or not iter_offsets <= {0, 1}:
            bad("iterations-bookkeeping", {"iterations_minus_steps": sorted(iter_offsets)})

        # ---- stopping contract for three tolerances at the largest cap
        mmax = max(ms)
        for tol in (1e-12, 1e-6, 1e-1):
            ntr += 1
            try:
                x, info, calls = run(mmax, tol)
            except Exception as e:
                bad(f"exc:{type(e).__name__}", {"msg": str(e)[:300], "tol": tol})
                continue
            X = x if x.ndim == 2 else x[:, None]
            if not np.all(np.isfinite(X)):  # NaN compares False with every threshold below
                bad("nonfinite", {"tol": tol}, f",tol={tol}")
                continue
            s = calls - 1
            thr = tol * (1 + np.where(bn > 0, r0n / np.where(bn > 0, bn, 1), 0.0))
            rel = lambda Xk: np.where(bn > 0, np.linalg.norm(B - M @ Xk, axis=0) / np.where(bn > 0, bn, 1), 0.0)  # noqa: E731
            if s in prefix and np.max(np.abs(X - prefix[s])) > 1e-12 * max(1.0, np.max(np.abs(X))):
                bad("run-is-not-its-own-prefix", {"tol": tol, "steps": s})
            rs = rel(X)
            if np.any(thr < 100 * attainable):
                notes["stopping_not_judged_below_attainable_accuracy"] = notes.get("stopping_not_judged_below_attainable_accuracy", 0) + 1
            elif s < mmax:
                near = np.abs(rs / thr - 1) < 1e-6
                if np.any(near):
                    notes["borderline_skipped"] += 1
                elif np.any(rs > thr * (1 + 1e-6) + 1e-14):
                    bad("stopped-before-tolerance", {"tol": tol, "steps": s, "rel_residuals": rs.tolist(), "threshold": thr.tolist()}, f",tol={tol}")
                if s >= 1 and (s - 1) in prefix:
                    rp = rel(prefix[s - 1])
                    nearp = np.abs(rp / thr - 1) < 1e-6
                    if np.any(nearp):
                        notes["borderline_skipped"] += 1
                    elif np.all(rp <= thr * (1 - 1e-6)):
                        bad("stopped-too-late", {"tol": tol, "steps": s, "rel_residuals_one_step_earlier": rp.tolist(), "threshold": thr.tolist()}, f",tol={tol}")
            if calls > mmax + 1:
                bad("cap", {"max_iters": mmax, "block_products": calls, "tol": tol})
            errs = np.asarray(info.get("errors", []), dtype=float).reshape(-1)
            if errs.size and wellcond:
                # entries must be tracked residual norms (mean over columns, right-hand sides normalised) of steps in increasing order
                track = {j: float(np.mean(np.where(bn > 0, np.linalg.norm(B - M @ prefix[j], axis=0) / np.where(bn > 0, bn, 1), 0.0)))
                         for j in prefix if j <= s}
                ok, last = True, -1
                floor = 1e-12 * condA * max(track.values())  # recursive vs true residual agree only down to this level
                for e in errs:
                    cand = [j for j, t in track.items() if j >= last and abs(e - t) <= 1e-6 * max(t, 1e-12) + floor]
                    if not cand:
                        ok = False
                        break
                    last = min(cand)
                if len(track) == s + 1 and (not ok or errs.size > s + 2 or abs(errs[-1] - track[s]) > 1e-6 * max(track[s], 1e-12) + floor):
                    bad("residual-history", {"tol": tol, "steps": s, "errors": errs.tolist()[:12], "tracked": [track[j] for j in sorted(track)][:12]})

        # ---- scaling: cg(A, alpha b, alpha x0) = alpha cg(A, b, x0)
        mref = ms[min(len(ms) - 1, 3)]
        for alpha in (2.0**-20, -3.0, 2.0**20):
            ntr += 1
            try:
                # scaled in the promoted dtype (alpha * float32 would round: the comparison below is to 1e-10)
                xa, _, _ = run(mref, TINY, bb=alpha * b.astype(B.dtype), xx0=(None if x0 is None else alpha * x0.astype(B.dtype)))
                ref_x = prefix[mref] if b.ndim == 2 else prefix[mref][:, 0]
                scale = max(np.max(np.abs(ref_x)), 1e-300) * abs(alpha)
                if np.max(np.abs(xa - alpha * ref_x)) > 1e-10 * scale:
                    bad("not-linear-in-b", {"alpha": alpha, "max_iters": mref, "dev": float(np.max(np.abs(xa - alpha * ref_x)) / scale)})
            except Exception as e:
                bad(f"exc:{type(e).__name__}", {"msg": str(e)[:300], "alpha": alpha})

        # ---- the lazy inverse runs the same solver
        ntr += 1
        try:
            xi, _, callsi = run(mref, TINY, entry="inv")
            ref_x = prefix[mref] if b.ndim == 2 else prefix[mref][:, 0]
            if xi.shape != b.shape or np.max(np.abs(xi - ref_x)) > 1e-12 * max(1.0, np.max(np.abs(ref_x))):
                bad("inv-entry-differs", {"max_iters": mref, "shape": list(xi.shape)})
        except Exception as e:
            bad(f"inv-entry-exc:{type(e).__name__}", {"msg": str(e)[:300]})
    return {"states": len(ms) + 7, "transitions": ntr, "outcome": h.hexdigest()[:12], "violations": vio, "notes": notes}


_DESC = {}


def cases(tier, seed):
    out = []
    bks = ["one", "three", "zerocol", "allzero", "zero1d", "lowp", "intrhs"]
    for n in (1, 2, 3, 4, 5, 6):
        ms = list(range(0, 2 * n + 1))
        for cplx in (False, True):
            for bk in bks:
                for x0k in ("none", "zero", "rand", "exact"):
                    for pk in (("none", "jacobi", "dense", "nystrom") if not cplx else ("none", "jacobi")):
                        if tier == "quick" and n in (4, 6) and pk in ("dense", ) and bk not in ("one", "three"):
                            continue
                        out.append(["int", n, cplx, "int", bk, x0k, pk, ms])
    sizes = [8, 25] if tier == "quick" else [8, 25, 60, 200]
    specs = ["cond1", "cond10", "cond1e3", "three", "clusters", "cond1e6", "cond10@tiny", "cond10@huge"]
    for n in sizes:
        ms = list(range(0, 2 * n + 1)) if n <= 8 else sorted({0, 1, 2, 5, 10, 25, 2 * n})
        for cplx in (False, True):
            for spec in specs:
                for bk in ["one", "three", "zerocol", "eig1", "eig2", "mixcols", "lowp", "intrhs"]:
                    for x0k in ("none", "rand", "exact"):
                        for pk in (("none", "jacobi", "nystrom") if not cplx else ("none", "jacobi")):
                            if tier == "quick" and (n > 8) and not (bk in ("one", "three", "mixcols", "lowp") and x0k != "exact" and pk != "nystrom"):
                                continue
                            if tier == "quick" and n == 8 and spec in ("cond10", "clusters") and pk == "nystrom":
                                continue
                            out.append(["spec", n, cplx, spec, bk, x0k, pk, ms])
    _DESC.update({"configurations": len(out), "runs": sum(len(c[-1]) + 7 for c in out), "sizes": [1, 2, 3, 4, 5, 6] + sizes, "spectra": specs})
    return out


def case_signature(case):
    return ",".join(map(str, case[:7]))


def describe(tier, seed):
    return {
        "bound": "A: integer SPD / Hermitian n=1..6 (exact rational optimum) and Q diag(l) Q^H real / complex with n in " + str(_DESC.get("sizes"))
                 + " and spectra " + str(_DESC.get("spectra")) + "; b: 1 column, 3 columns (norms 2^-20, 1, 2^20), zero column among non-zero, "
                 "all-zero, eigenvector, two eigenvectors; x0 in {none, zero, random, exact solution}; P in {none, Jacobi, SPD dense, Nystrom}; every "
                 "max_iters in 0..2n (n<=8) / {0,1,2,5,10,25,2n}; tol in {1e-12, 1e-6, 1e-1}; entry points cg() and inv(A, CG()) @ b",
        "alphabet": _DESC,
        "oracle": "per truncation: A-norm error <= (1+1e-6) x Krylov optimum; products <= max_iters+1 (exactly 1 at 0); stopping inequality true at "
                  "the stop and false one step earlier; zero right-hand sides exactly zero; linear in b; iterations / residual history consistent",
    }
