"""C02 -- transpose, adjoint and left-multiplication agree with the represented matrix."""
import hashlib
import itertools
import warnings

import numpy as np

from mc import payload as P
from mc.refmodel import Inadmissible, is_exact, low_precision, promote, ref, signature, size
from mc.termcheck import TermChecker, compare, short, tol_for
from mc.terms import build, to_source
from props import c01

PROPERTY = "C02"
ASSUMPTIONS = c01.ASSUMPTIONS

TOWERS = ["".join(p) for d in (1, 2, 3) for p in itertools.product("TH", repeat=d)]  # 14 towers
LEFT = [("y1f8", "f8", None), ("Y2f8", "f8", 2), ("y1c16", "c16", None), ("Y2c16", "c16", 2), ("y1f4", "f4", None)]


def apply_tower(A, tw):
    for ch in tw:
        A = A.T if ch == "T" else A.H
    return A


def ref_tower(M, tw):
    for ch in tw:
        M = M.T if ch == "T" else M.conj().T
    return M


def left_operand(seed, n, tag, tok, rows):
    x = P.operand(seed, n, rows, tok, tag)
    return x if rows is None else np.ascontiguousarray(x.T)


def observe(term, seed):
    fails = {}
    n = 0
    h = hashlib.sha256()
    try:
        R = ref(term, seed)
    except Inadmissible:
        return {}, 0, "inadmissible"
    lowp = low_precision(term)

    def tol(dtype, tok="f8"):
        return 2e-4 if (lowp or tok in ("f4", "c8")) else tol_for(dtype)

    def src(extra=""):
        return to_source(term) + extra

    with warnings.catch_warnings():
        warnings.simplefilter("ignore")
        try:
            A = build(term, seed)
        except Exception:
            return {}, 0, "build-exc"  # construction failures are C01/C03's business
        deep = size(term) <= 1
        for tw in TOWERS:
            if len(tw) > 1 and not deep:
                continue
            n += 1
            want = ref_tower(R.mat, tw)
            obs = f"tower:{tw}"
            try:
                B = apply_tower(A, tw)
                if tuple(B.shape) != want.shape:
                    fails[obs] = ("shape", {"got": list(B.shape), "want": list(want.shape), "src": src("." + ".".join(tw))})
                    continue
                Dn = np.asarray(B.to_dense())
                sym = compare(Dn, want, is_exact(term, want, Dn.dtype), tol(Dn.dtype))
                if sym is None and (np.dtype(B.dtype) not in R.dtypes or np.dtype(Dn.dtype) not in R.dtypes):
                    sym = "dtype"
                if sym:
                    fails[obs] = (sym, {"got": short(Dn), "want": short(want), "op_dtype": str(B.dtype),
                                        "want_dtypes": sorted(map(str, R.dtypes)), "src": src("." + ".".join(tw))})
                h.update(np.ascontiguousarray(Dn).tobytes())
                if len(tw) == 1:
                    # products with the wrapper on both sides
                    n += 2
                    x = P.operand(seed, want.shape[1], 2, "c16", "tx")
                    y = np.asarray(B @ x)
                    w = want @ x
                    sym = compare(y, w, is_exact(term, w, y.dtype) and is_exact(term, want, y.dtype), tol(y.dtype))
                    if sym:
                        fails[obs + ":matmul"] = (sym, {"got": short(y), "want": short(w), "src": src("." + tw + " @ X")})
                    xl = left_operand(seed, want.shape[0], "tl", "c16", 2)
                    y = np.asarray(xl @ B)
                    w = xl @ want
                    sym = compare(y, w, is_exact(term, w, y.dtype) and is_exact(term, want, y.dtype), tol(y.dtype))
                    if sym:
                        fails[obs + ":rmatmul"] = (sym, {"got": short(y), "want": short(w), "src": "X @ " + src("." + tw)})
            except Exception as e:
                fails[obs] = (f"exc:{type(e).__name__}", {"msg": str(e)[:300], "src": src("." + ".".join(tw))})
        for tag, tok, rows in LEFT:
            n += 1
            x = left_operand(seed, R.shape[0], tag, tok, rows)
            x0 = x.copy()
            want = x.astype(np.complex128) @ R.mat
            want_dts = {promote(d, x.dtype) for d in R.dtypes}
            obs = f"rmatmul:{tag}"
            try:
                y = np.asarray(x @ A)
            except Exception as e:
                fails[obs] = (f"exc:{type(e).__name__}", {"msg": str(e)[:300], "src": "x @ " + src()})
                continue
            sym = compare(y, want, is_exact(term, want, y.dtype) and is_exact(term, R.mat, y.dtype), tol(y.dtype, tok))
            if sym is None and np.dtype(y.dtype) not in want_dts:
                sym = "dtype"
            if sym:
                fails[obs] = (sym, {"got": short(y), "want": short(want), "want_dtypes": sorted(map(str, want_dts)),
                                    "src": "x @ " + src()})
            if not np.array_equal(x, x0):
                fails[obs + ":operand-mutated"] = ("mutation", {"src": src()})
            h.update(np.ascontiguousarray(y).tobytes())
    return fails, n, h.hexdigest()[:16]


CHECKER = TermChecker(PROPERTY, observe)
_DESC = {}


def cases(tier, seed):
    terms, info = c01.gen_terms(tier)
    if tier == "thorough":
        # the size-3 layer is too expensive at 2.5x the C01 cost: keep sizes <= 2 of every alphabet
        terms = [t for t in terms if size(t) <= 2]
        info["note"] = "size-3 layer of C01 not re-explored here"
    else:
        # quick: size-2 terms only under the combinators with a kind-specific transpose / left product
        terms = [t for t in terms if size(t) <= 1 or t[0] in ("T", "H", "matmul", "add", "slice")]
        info["note"] = "size-2 layer restricted to top-level T, H, @, +, slice (the kinds with their own left product)"
    info["total_terms"] = len(terms)
    _DESC.update(info)
    return terms


def run_case(term, seed):
    return CHECKER.run(term, seed)


def case_signature(case):
    return signature(case)


def describe(tier, seed):
    return {
        "bound": "C01 term space (size <=1 over L_full, <=2 over L_small" + (", <=2 over L_mid" if tier == "thorough" else "")
                 + ") x towers over {T,H}: all 14 of depth<=3 on terms of size<=1, depth 1 on larger terms; 5 left operands",
        "alphabet": _DESC, "towers": TOWERS, "left_operands": [x[0] for x in LEFT],
        "oracle": "bit-exact equality with transposes / conjugate transposes / left products of the reference matrix "
                  "(exact tier); 1e-9 / 2e-4 relative otherwise",
    }
