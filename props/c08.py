"""C08 -- exact diag / trace return the true (off-)diagonal and trace."""
import hashlib
import warnings

import numpy as np

import cola
import cola.linalg as L
from cola import ops
from mc import alphabet as AB
from mc import payload as P
from mc.refmodel import coarse_signature, is_exact, low_precision, ref, size
from mc.termcheck import compare, short
from mc.terms import build, to_source

PROPERTY = "C08"
ASSUMPTIONS = [
    "a structural rule may refuse a request with AssertionError / NotImplementedError; if it returns, it must equal the reference and "
    "the generic probing algorithm run on cola.no_dispatch(A)",
    "Auto() is used at its default tolerance (which selects the exact algorithm for every size explored)",
    "NumPy backend only; harness shim as in C01",
]
ALGS = ["omitted", "Exact", "Auto"]
D = AB.D


def leaves():
    return [
        D(3, 3), D(3, 3, "c16"), D(2, 2), D(1, 1), D(2, 2, "f4"), ["Identity", 3, "f8"], ["Identity", 2, "c16"],
        ["Diag", 3, "f8", "mixed"], ["Diag", 2, "c16", "mixed"], ["Scalar", "m3", 3, "f8"], ["Scalar", "cj", 2, "c16"],
        ["Tridiag", 4, "f8", "gen"], ["Tridiag", 3, "c16", "gen"], ["Generic", [3, 3], "f8", "g"], ["Generic", [2, 2], "c16", "g"],
        ["Perm", 3, "cyc", "f8"], ["Sparse", [3, 3], "f8", "g"], ["Tri", 3, "f8", True, "g"], ["House", 3, "c16", "g"],
        ["Ann", "PSD", D(3, 3, "f8", "spd")], D(2, 3), D(3, 2, "c16"), D(1, 2), D(2, 1),
    ]


UN = {"T": AB.UNARY["T"], "H": AB.UNARY["H"], "lmul": lambda a: [["lmul", c, a] for c in ("m3", "cj")], "neg": AB.UNARY["neg"],
      "NoDisp": AB.UNARY["NoDisp"],
      "slice": lambda a: [["slice", a, ["s", 0, 2, None], ["s", 0, 2, None]], ["slice", a, ["s", None, None, -1], ["s", 1, None, None]]]}
BI = {"add": AB.BINARY["add"], "sub": AB.BINARY["sub"], "matmul": AB.BINARY["matmul"], "kron": AB.BINARY["kron"],
      "kronsum": AB.BINARY["kronsum"], "BlockDiag": lambda a, b: [["BlockDiag", [a, b], m] for m in ([1, 1], [2, 1], [1, 3])]}
TE = {"Kronecker3": AB.TERNARY["Kronecker3"], "KronSum3": AB.TERNARY["KronSum3"]}


def big_cases():
    out = []
    for n in (5, 6, 7, 99, 100, 101, 150, 199, 200, 201, 250):
        out.append(["BIG", "Generic", n, "f8"])
        out.append(["BIG", "Tridiag", n, "c16"])
        if n in (7, 99, 101, 200, 250):
            out.append(["BIG", "Product", n, "f8"])
            out.append(["BIG", "NoDispDense", n, "c16"])
    # beyond n = 316 a wrongly evaluated Auto() threshold would switch the DEFAULT algorithm to the stochastic estimator
    out += [["BIG", "Generic", 320, "f8"], ["BIG", "Product", 320, "f8"], ["BIG", "Generic", 400, "c16"]]
    return out


def big_operator(kind, n, tok, seed):
    g = P.rng(seed, "c08big", kind, n, tok)
    c = P.is_cplx(tok)
    if kind in ("Generic", "NoDispDense"):
        M = P.ints(g, (n, n), -3, 3, cplx=c)
        if kind == "Generic":
            return ops.LinearOperator(M.dtype, (n, n), matmat=lambda X, M=M: M @ X), M
        return cola.no_dispatch(ops.Dense(M)), M
    if kind == "Tridiag":
        a, b, cc = P.ints(g, (n - 1, ), cplx=c), P.ints(g, (n, ), cplx=c), P.ints(g, (n - 1, ), cplx=c)
        return ops.Tridiagonal(a, b, cc), np.diag(b) + np.diag(a, -1) + np.diag(cc, 1)
    if kind == "Product":
        U, V = P.ints(g, (n, 3), -2, 2), P.ints(g, (3, n), -2, 2)
        return ops.Dense(U) @ ops.Dense(V), U @ V
    raise ValueError(kind)


def call_diag(A, k, alg):
    if alg == "omitted":
        return L.diag(A, k)
    return L.diag(A, k, L.Exact() if alg == "Exact" else L.Auto())


def call_trace(A, alg):
    if alg == "omitted":
        return L.trace(A)
    return L.trace(A, L.Exact() if alg == "Exact" else L.Auto())


def run_case(case, seed):
    if case[0] == "BIG":
        _, kind, n, tok = case
        A, M = big_operator(kind, n, tok, seed)
        term, alg = None, "Exact"
        sig, src = f"{kind},n={'<100' if n < 100 else ('=100' if n == 100 else ('not-multiple' if n % 100 else 'multiple'))}", f"{kind}<{n},{tok}>"
        ks = sorted({0, 1, -1, 2, -2, n - 1, -(n - 1), n // 2, -(n // 2), 99, -99, 100, -100, 101, -101} & set(range(-n + 1, n)))
        exact, lowp, dts = True, False, None
        algs = ["Exact", "omitted", "Auto"]
    else:
        term, alg0 = case
        algs = [alg0]
        R = ref(term, seed)
        M = R.mat
        n = M.shape[0]
        sig, src = coarse_signature(term), to_source(term)
        ks = list(range(-n + 1, n)) if n > 1 else [0]
        exact, lowp, dts = is_exact(term, M), low_precision(term), R.dtypes
        A = None
    vio, ntr = [], 0
    h = hashlib.sha256()
    refused = 0

    def bad(obs, sym, alg, k, detail):
        kc = "k=0" if k == 0 else ("k>0" if k > 0 else "k<0")
        key = f"C08|{obs}|{sym}|{alg}|{kc}|{sig}"
        if not any(v["key"] == key for v in vio):
            vio.append({"key": key, "what": f"{obs}(k={k}) {sym} with {alg} on {sig}", "detail": {**detail, "src": src, "k": k, "alg": alg}})

    with warnings.catch_warnings():
        warnings.simplefilter("ignore")
        if A is None:
            A = build(term, seed)
        for alg in algs:
            for k in ks:
                ntr += 1
                want = np.diag(M, k)
                try:
                    got = np.asarray(call_diag(A, k, alg))
                except (AssertionError, NotImplementedError):
                    refused += 1
                    continue
                except Exception as e:
                    bad("diag", f"exc:{type(e).__name__}", alg, k, {"msg": str(e)[:300]})
                    continue
                sym = compare(got, want, exact and is_exact(term, want, got.dtype) if term is not None else True, 2e-4 if lowp else 1e-9)
                if sym is None and dts is not None and np.dtype(got.dtype) not in dts:
                    sym = "dtype"
                if sym:
                    bad("diag", sym, alg, k, {"got": short(got), "want": short(want), "want_dtypes": sorted(map(str, dts)) if dts else None})
                    continue
                h.update(np.ascontiguousarray(got).tobytes())
                if term is not None and size(term) > 0 and k in (0, 1, -1, ks[0]):
                    # differential oracle: the generic probing algorithm on the same operator without dispatch
                    ntr += 1
                    try:
                        probe = np.asarray(L.diag(cola.no_dispatch(A), k, L.Exact()))
                        if compare(got, probe.astype(np.complex128), exact, 2e-4 if lowp else 1e-9):
                            bad("diag-vs-probing", "value", alg, k, {"rule": short(got), "probing": short(probe)})
                    except Exception as e:
                        bad("diag-vs-probing", f"exc:{type(e).__name__}", alg, k, {"msg": str(e)[:300]})
            ntr += 1
            try:
                tr = np.asarray(call_trace(A, alg))
                want = np.trace(M)
                if tr.shape != () and tr.size != 1:
                    bad("trace", "shape", alg, 0, {"got": short(tr)})
                elif compare(tr.reshape(()), np.asarray(want, dtype=np.complex128), exact, 2e-4 if lowp else 1e-9):
                    bad("trace", "value", alg, 0, {"got": short(tr), "want": complex(want)})
            except (AssertionError, NotImplementedError):
                refused += 1
            except Exception as e:
                bad("trace", f"exc:{type(e).__name__}", alg, 0, {"msg": str(e)[:300]})
    return {"states": len(ks) * len(algs), "transitions": ntr, "outcome": h.hexdigest()[:12], "violations": vio,
            "notes": {"requests_refused_by_a_structural_rule": refused}}


_DESC = {}


def cases(tier, seed):
    W = AB.with_shapes
    Lf = W(leaves())
    sq = lambda ps: [(t, s) for t, s in ps if s[0] == s[1]]  # noqa: E731
    l1 = sq(AB.grow([Lf], unary=UN, binary=BI, ternary=TE, ternary_pool=Lf[:3] + Lf[5:6] + Lf[7:8] + Lf[9:10] + Lf[20:22], max_dim=40))
    terms = sq(Lf) + l1
    info = {"leaves": len(Lf), "depth1": len(l1)}
    if tier == "thorough":
        pk = {repr(Lf[i][0]) for i in (0, 1, 5, 7, 9, 11, 13, 20, 21)}
        l1all = AB.grow([Lf], unary={"T": UN["T"], "lmul": lambda a: [["lmul", "cj", a]]},
                        binary={k: BI[k] for k in ("add", "matmul", "kron", "kronsum")}, max_dim=20)
        l2 = sq(AB.grow([Lf, l1all], unary={"T": UN["T"], "lmul": lambda a: [["lmul", "m3", a]]},
                        binary={"add": BI["add"], "matmul": BI["matmul"], "kron": BI["kron"], "kronsum": BI["kronsum"],
                                "BlockDiag": lambda a, b: [["BlockDiag", [a, b], [2, 1]]]}, max_dim=30,
                        partner=lambda a: repr(a) in pk, cap=60000))
        terms += l2
        info["depth2"] = len(l2)
        info["depth2_cap_hit"] = len(l2) >= 60000
    out = []
    for t, _ in terms:
        for a in ALGS:
            if tier == "quick" and a == "Auto" and size(t) > 0:
                continue
            out.append([t, a])
    out += big_cases()
    info["work_items"] = len(out)
    _DESC.update(info)
    return out


def case_signature(case):
    return str(case)[:80]


def describe(tier, seed):
    return {
        "bound": "square terms over 24 leaves (incl. rectangular factors whose Kronecker / block-diagonal / product is square), every depth-1 "
                 "nesting (+, -, @, kron, kronsum, 3-factor Kronecker and KronSum, BlockDiag with 3 multiplicity patterns, T, H, scalars, "
                 "slices, no_dispatch)" + (", capped depth-2" if tier == "thorough" else "") + " x EVERY offset -n<k<n x {omitted, Exact(), Auto()}; "
                 "probing algorithm on sizes 5,6,7,99,100,101,150,199,200,201,250,320,400 (4 kinds without a rule) at 15 offsets with {Exact(), omitted, Auto()}",
        "alphabet": _DESC,
        "oracle": "numpy.diag(reference, k): values (bit-exact in the exact tier), length n-|k|, dtype; trace; structural rule vs generic "
                  "probing on no_dispatch(A)",
        "exhaustive": not _DESC.get("depth2_cap_hit", False),
    }
