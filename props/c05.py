"""C05 -- reported structural annotations are true of the represented matrix (soundness only)."""
import hashlib
import itertools
import warnings

import numpy as np

import cola
from cola import ops
from mc import alphabet as AB
from mc import payload as P
from mc.refmodel import Inadmissible, coarse_signature, is_exact, ref, signature
from mc.termcheck import TermChecker, short
from mc.terms import build, to_source

PROPERTY = "C05"
ASSUMPTIONS = [
    "only soundness is checked (reported => true); a missing annotation is never an alarm",
    "user declarations in the alphabet are true of the payload they are applied to",
    "NumPy backend only; harness shim as in C01",
]
ANNS = {"SelfAdjoint": cola.SelfAdjoint, "PSD": cola.PSD, "Unitary": cola.Unitary, "Stiefel": cola.Stiefel}


def truth(D, exact):
    """which of the four annotations are true of the dense matrix D"""
    D = np.asarray(D, dtype=np.complex128)
    tol = 0.0 if exact else 1e-8 * max(1.0, float(np.max(np.abs(D))) if D.size else 1.0)
    out = set()
    sq = D.shape[0] == D.shape[1]
    if sq and np.max(np.abs(D - D.conj().T), initial=0.0) <= tol:
        out.add("SelfAdjoint")
        lam = np.linalg.eigvalsh((D + D.conj().T) / 2)
        if lam.min(initial=0.0) >= -1e-9 * max(1.0, float(np.max(np.abs(D), initial=0.0))):
            out.add("PSD")
    G = D.conj().T @ D
    if np.max(np.abs(G - np.eye(D.shape[1])), initial=0.0) <= max(tol, 0 if exact else 1e-8):
        out.add("Stiefel")
        if sq and np.max(np.abs(D @ D.conj().T - np.eye(D.shape[0])), initial=0.0) <= max(tol, 0 if exact else 1e-8):
            out.add("Unitary")
    return out


def claimed(A):
    out = set()
    for name, cls in ANNS.items():
        if A.isa(cls):
            out.add(name)
    return out


def check_op(A, D, exact, src, obs, fails):
    """every annotation A reports must be true of D; isa must be consistent with .annotations"""
    cl = claimed(A)
    from_set = {n for n, c in ANNS.items() if any(issubclass(a, c) for a in A.annotations)}
    if cl != from_set:
        fails[obs + ":isa-vs-set"] = ("inconsistent", {"isa": sorted(cl), "annotations": sorted(map(str, A.annotations)), "src": src})
    tr = truth(D, exact)
    bad = sorted(cl - tr)
    for b in bad:
        fails[f"{obs}:{b}"] = ("false-annotation", {"claimed": sorted(cl), "true_of_matrix": sorted(tr), "matrix": short(D, 16),
                                                    "shape": list(np.shape(D)), "src": src})
    return cl


def observe(term, seed):
    if term[0] == "WRAP":
        return observe_wrap(term, seed)
    if term[0] == "ROUTINE":
        return observe_routine(term, seed)
    fails, n = {}, 0
    try:
        R = ref(term, seed)
    except Inadmissible:
        return {}, 0, "inadmissible"
    with warnings.catch_warnings():
        warnings.simplefilter("ignore")
        try:
            A = build(term, seed)
        except Exception:
            return {}, 0, "build-exc"
        n += 4
        cl = check_op(A, R.mat, is_exact(term, R.mat), to_source(term), "annotations", fails)
    return fails, n, "|".join(sorted(cl)) or "none"


def observe_wrap(term, seed):
    """X(A): same matrix, annotations superset, A itself unchanged"""
    _, name, sub = term
    fails = {}
    with warnings.catch_warnings():
        warnings.simplefilter("ignore")
        R = ref(sub, seed)
        A = build(sub, seed)
        before_ann = set(A.annotations)
        before_dense = np.array(A.to_dense(), copy=True)
        leaves0 = [np.array(x, copy=True) for x in A.flatten()[0] if isinstance(x, np.ndarray)]
        B = ANNS[name](A)
        src = f"cola.{name}({to_source(sub)})"
        if B is A:
            fails["wrap:identity"] = ("returned-same-object", {"src": src})
        if not (set(B.annotations) >= before_ann | {ANNS[name]}):
            fails["wrap:annotations"] = ("missing", {"got": sorted(map(str, B.annotations)), "src": src})
        if set(A.annotations) != before_ann:
            fails["wrap:original-annotations"] = ("mutated", {"before": sorted(map(str, before_ann)),
                                                              "after": sorted(map(str, A.annotations)), "src": src})
        Db = np.asarray(B.to_dense())
        if Db.shape != R.shape or not np.allclose(Db, R.mat, rtol=1e-6, atol=1e-9):
            fails["wrap:dense"] = ("value", {"got": short(Db), "want": short(R.mat), "src": src})
        if np.dtype(B.dtype) != np.dtype(A.dtype) or type(B) is not type(A):
            fails["wrap:type"] = ("changed", {"got": f"{type(B).__name__}/{B.dtype}", "want": f"{type(A).__name__}/{A.dtype}", "src": src})
        Da = np.asarray(A.to_dense())
        if not np.array_equal(Da, before_dense):
            fails["wrap:original-dense"] = ("mutated", {"src": src})
        leaves1 = [x for x in A.flatten()[0] if isinstance(x, np.ndarray)]
        if len(leaves0) != len(leaves1) or any(not np.array_equal(a, b) for a, b in zip(leaves0, leaves1)):
            fails["wrap:original-payload"] = ("mutated", {"src": src})
        x = P.operand(seed, R.shape[1], 2, "c16", "wrapx")
        try:
            y = np.asarray(B @ x)
            if not np.allclose(y, R.mat @ x, rtol=1e-6, atol=1e-9):
                fails["wrap:matmul"] = ("value", {"src": src})
        except Exception as e:
            fails["wrap:matmul"] = (f"exc:{type(e).__name__}", {"msg": str(e)[:200], "src": src})
    return fails, 8, f"wrap:{name}"


# ---------------------------------------------------------------- routine outputs
def _mat(seed, fam, n, tok):
    if fam == "spd":
        return P.dense(seed, (n, n), tok, "spd")
    if fam == "sym":
        return P.dense(seed, (n, n), tok, "sym") if n > 1 else P.dense(seed, (1, 1), tok, "spd")
    if fam == "gen":
        M = P.dense(seed, (n, n), tok, "g").astype(np.complex128 if P.is_cplx(tok) else np.float64)
        return (M + 4 * np.eye(n)).astype(P.DT[tok])
    raise ValueError(fam)


def _op(seed, fam, n, tok):
    M = _mat(seed, fam, n, tok)
    A = ops.Dense(M)
    if fam == "spd":
        A = cola.PSD(A)
    elif fam == "sym":
        A = cola.SelfAdjoint(A)
    return A, M


def routine_cases(tier):
    out = []
    ns = (1, 2, 3, 4) if tier == "quick" else (1, 2, 3, 4, 5, 6)
    for n in ns:
        for tok in ("f8", "c16"):
            for fam in ("spd", "sym"):
                for k in range(1, n + 2):
                    out.append(["ROUTINE", "lanczos", fam, n, tok, k])
                    out.append(["ROUTINE", "Lanczos()", fam, n, tok, k])
            for fam in ("gen", "sym"):
                for k in range(1, n + 2):
                    out.append(["ROUTINE", "arnoldi", fam, n, tok, k])
            for fam in ("spd", "sym", "gen"):
                for k in range(1, n + 1):
                    for which in ("LM", "SM"):
                        algs = ["Auto", "Eig", "Arnoldi"] + (["Eigh", "Lanczos"] if fam != "gen" else [])
                        for alg in algs:
                            out.append(["ROUTINE", "eig", fam, n, tok, k, which, alg])
            for kind in ("Identity", "Diagonal", "TriLower", "TriUpper"):
                for k in range(1, n + 1):
                    for which in ("LM", "SM"):
                        out.append(["ROUTINE", "eig-struct", kind, n, tok, k, which])
            for fn in ("exp", "expi", "sqrt", "log", "isqrt", "pow2.5", "inv", "cholesky", "plu"):
                for alg in ("Auto", "Eigh", "Lanczos", "Eig", "Arnoldi"):
                    if fn in ("inv", "cholesky", "plu") and alg != "Auto":
                        continue
                    out.append(["ROUTINE", "unary", fn, n, tok, alg])
    shapes = [(1, 1), (2, 2), (3, 3), (3, 2), (2, 3), (4, 2), (2, 4)] + ([(5, 3), (3, 5), (4, 4)] if tier == "thorough" else [])
    for (m, n) in shapes:
        for tok in ("f8", "c16"):
            for k in range(1, min(m, n) + 1):
                for which in ("LM", "SM"):
                    for alg in ("Auto", "DenseSVD", "Lanczos"):
                        out.append(["ROUTINE", "svd", [m, n], tok, k, which, alg])
    for (m, n) in shapes:
        for tok in ("f8", "c16"):
            out.append(["ROUTINE", "LanczosSVD", [m, n], tok])
    for n in ns:
        for kind in ("Identity", "Diagonal"):
            for k in range(1, n + 1):
                out.append(["ROUTINE", "svd-struct", kind, n, "f8", k])
        for tok in ("f8", "c16"):
            out.append(["ROUTINE", "svd-struct", "DiagonalZero", n, tok, n])
    for n in (2, 3):
        for tok in ("f8", "c16"):
            out.append(["ROUTINE", "inv-unitary", n, tok])
    return out


def _alg(name, n):
    from cola.linalg import Arnoldi, Auto, Eig, Eigh, Lanczos
    from cola.linalg.svd.svd import DenseSVD
    return {"Auto": Auto(), "Eig": Eig(), "Eigh": Eigh(), "Lanczos": Lanczos(max_iters=n + 2, tol=1e-12),
            "Arnoldi": Arnoldi(max_iters=n, tol=1e-12), "DenseSVD": DenseSVD()}[name]


def observe_routine(term, seed):
    fails = {}
    kind = term[1]
    outs = []  # (label, operator)
    src = repr(term)
    with warnings.catch_warnings():
        warnings.simplefilter("ignore")
        try:
            if kind in ("lanczos", "Lanczos()"):
                _, _, fam, n, tok, k = term
                A, M = _op(seed, fam, n, tok)
                v = 2 * P.operand(seed, n, None, tok, "lv") + 1  # odd entries: never the zero vector
                if kind == "lanczos":
                    from cola.linalg.decompositions.lanczos import lanczos
                    Q, T, _ = lanczos(A, v, max_iters=k, tol=1e-12)
                else:
                    from cola.linalg import Lanczos
                    Q, T, _ = Lanczos(start_vector=v, max_iters=k, tol=1e-12)(A)
                outs += [("Q", Q), ("T", T)]
            elif kind == "arnoldi":
                _, _, fam, n, tok, k = term
                A, M = _op(seed, fam, n, tok)
                v = 2 * P.operand(seed, n, None, tok, "av") + 1
                from cola.linalg.decompositions.arnoldi import arnoldi
                Q, H, _ = arnoldi(A, v, max_iters=k, tol=1e-12)
                outs += [("Q", Q), ("H", H)]
            elif kind == "eig":
                _, _, fam, n, tok, k, which, alg = term
                A, M = _op(seed, fam, n, tok)
                from cola.linalg import eig
                vals, V = eig(A, k=k, which=which, alg=_alg(alg, n))
                outs += [("V", V)]
            elif kind == "eig-struct":
                _, _, sk, n, tok, k, which = term
                from cola.linalg import eig
                if sk == "Identity":
                    A = ops.Identity((n, n), P.dt(tok))
                elif sk == "Diagonal":
                    A = ops.Diagonal(P.diag(seed, n, "f8", "mixed").astype(P.DT[tok]) * np.arange(1, n + 1))
                else:
                    T = P.tri(seed, n, tok, sk == "TriLower", "g").astype(np.complex128)
                    T = T - np.diag(np.diag(T)) + np.diag(np.arange(1, n + 1) * 1.0)
                    A = ops.Triangular(T.astype(P.DT[tok]), lower=(sk == "TriLower"))
                vals, V = eig(A, k=k, which=which)
                outs += [("V", V)]
            elif kind == "unary":
                _, _, fn, n, tok, alg = term
                fam = "spd" if alg in ("Auto", "Eigh", "Lanczos") else "gen"
                A, M = _op(seed, fam, n, tok)
                import cola.linalg as L
                from cola.linalg.decompositions.decompositions import cholesky, plu
                a = _alg(alg, n)
                if fn == "exp":
                    A2, _ = _op(seed, fam, n, tok)
                    outs.append(("exp", L.exp(A * 0.125 if False else A2, a)))
                elif fn == "expi":  # a complex-valued function of a self-adjoint operator: unitary, NOT self-adjoint
                    outs.append(("expi", L.apply_unary(lambda z: np.exp(0.5j * z), A, a)))
                elif fn == "sqrt":
                    outs.append(("sqrt", L.sqrt(A, a)))
                elif fn == "log":
                    outs.append(("log", L.log(A, a)))
                elif fn == "isqrt":
                    outs.append(("isqrt", L.isqrt(A, a)))
                elif fn == "pow2.5":
                    outs.append(("pow", L.pow(A, 2.5, a)))
                elif fn == "inv":
                    outs.append(("inv", L.inv(A)))
                elif fn == "cholesky":
                    outs.append(("chol", cholesky(A)))
                elif fn == "plu":
                    Pm, Lo, U = plu(A)
                    outs += [("P", Pm), ("L", Lo), ("U", U)]
            elif kind == "svd":
                _, _, shp, tok, k, which, alg = term
                M = P.dense(seed, tuple(shp), tok, "g").astype(np.complex128)
                M = M + np.eye(*shp) * 5
                A = ops.Dense(M.astype(P.DT[tok]))
                from cola.linalg.svd.svd import svd
                U, S, V = svd(A, k, which, _alg(alg, max(shp)))
                outs += [("U", U), ("S", S), ("V", V)]
            elif kind == "LanczosSVD":  # the callable decomposition object cola.linalg.LanczosSVD()(A)
                _, _, shp, tok = term
                M = P.dense(seed, tuple(shp), tok, "g").astype(np.complex128)
                M = M + np.eye(*shp) * 5
                A = ops.Dense(M.astype(P.DT[tok]))
                from cola.linalg.decompositions.decompositions import LanczosSVD
                U, S, V = LanczosSVD(max_iters=max(shp) + 2, tol=1e-12)(A)
                outs += [("U", U), ("S", S), ("V", V)]
            elif kind == "svd-struct":
                _, _, sk, n, tok, k = term
                from cola.linalg.svd.svd import svd
                if sk == "DiagonalZero":  # a singular Diagonal: exact zeros (also -0.0 / 0j) among the entries
                    d = P.diag(seed, n, tok, "mixed").copy()
                    d[0] = 0
                    if n > 2:
                        d[-1] = -0.0
                    A = ops.Diagonal(d)
                else:
                    A = ops.Identity((n, n), P.dt(tok)) if sk == "Identity" else ops.Diagonal(P.diag(seed, n, tok, "mixed"))
                U, S, V = svd(A, k, "LM")
                outs += [("U", U), ("S", S), ("V", V)]
            elif kind == "inv-unitary":
                _, _, n, tok = term
                A = cola.Unitary(ops.Dense(P.dense(seed, (n, n), tok, "orth")))
                import cola.linalg as L
                outs.append(("inv", L.inv(A)))
        except Exception as e:
            # a routine refusing / failing is not this property's business (C04, C09, C10, C14-C16)
            return {}, 1, f"raised:{type(e).__name__}"
        n_obs = 0
        cls = []
        for label, op in outs:
            if not isinstance(op, ops.LinearOperator):
                continue
            n_obs += 4
            try:
                D = np.asarray(op.to_dense())
            except Exception as e:
                continue
            if D.ndim != 2 or not np.all(np.isfinite(D)):
                continue
            cl = check_op(op, D, False, src, f"{kind}:{label}", fails)
            cls.append(label + "=" + "+".join(sorted(cl)))
    return fails, max(n_obs, 1), ";".join(cls)


def sig(t):
    if t[0] == "WRAP":
        return f"{t[1]}({coarse_signature(t[2])})"
    if t[0] == "ROUTINE":
        if t[1] in ("eig", ):
            return f"{t[2]},{t[4]},k{'=n' if t[5] == t[3] else '<n'},{t[6]},{t[7]}"
        if t[1] == "eig-struct":
            return f"{t[2]},k{'=n' if t[5] == t[3] else '<n'}"
        if t[1] in ("lanczos", "Lanczos()", "arnoldi"):
            return f"{t[2]},{t[4]},iters{'>=n' if t[5] >= t[3] else '<n'}"
        if t[1] == "svd":
            m, n = t[2]
            return f"{'sq' if m == n else ('tall' if m > n else 'wide')},{t[3]},k{'=min' if t[4] == min(m, n) else '<min'},{t[5]},{t[6]}"
        if t[1] == "LanczosSVD":
            m, n = t[2]
            return f"{'sq' if m == n else ('tall' if m > n else 'wide')},{t[3]}"
        if t[1] == "svd-struct":
            return f"{t[2]},k{'=n' if t[5] == t[3] else '<n'}"
        if t[1] == "unary":
            return f"{t[2]},{t[4]},{t[5]}"
        return ",".join(map(str, t[2:]))
    return signature(t)


class Checker(TermChecker):
    def core(self, term, obs, seed):
        if term[0] in ("WRAP", "ROUTINE"):
            return term
        return super().core(term, obs, seed)


CHECKER = Checker(PROPERTY, observe, sig=sig)
_DESC = {}


def leaves():
    D = AB.D
    none = [D(2, 2), D(3, 3, "c16"), D(2, 3, "c16"), D(3, 2), ["Diag", 2, "c16", "mixed"], ["Tridiag", 3, "f8", "gen"],
            ["Generic", [3, 3], "c16", "g"], ["Generic", [3, 2], "f8", "g"], ["Sparse", [3, 3], "f8", "g"]]
    sa = [["Ann", "SelfAdjoint", D(3, 3, "f8", "sym")], ["Ann", "SelfAdjoint", D(2, 2, "c16", "sym")],
          ["Ann", "SelfAdjoint", ["Tridiag", 3, "c16", "sym"]], ["Ann", "SelfAdjoint", ["Generic", [2, 2], "c16", "sym"]],
          ["Ann", "SelfAdjoint", ["Diag", 3, "f8", "mixed"]], ["Ann", "SelfAdjoint", ["Generic", [3, 3], "f8", "sym"]]]
    psd = [["Ann", "PSD", D(3, 3, "f8", "spd")], ["Ann", "PSD", D(2, 2, "c16", "spd")], ["Ann", "PSD", ["Diag", 2, "f8", "pos"]],
           ["Ann", "PSD", ["Generic", [3, 3], "c16", "spd"]], ["Identity", 2, "f8"], ["Identity", 3, "c16"]]
    uni = [["Perm", 3, "cyc", None], ["Perm", 2, "swap", "f8"], ["Ann", "Unitary", ["House", 3, "c16", "g"]],
           ["Ann", "Unitary", D(3, 3, "c16", "orth")], ["Ann", "Unitary", D(2, 2, "f8", "orth")], ["FFT", 2, "c16"], ["FFT", 3, "c16"],
           ["Ann", "Unitary", ["Generic", [3, 3], "c16", "orth"]],
           ["Ann", "SelfAdjoint", ["Ann", "Unitary", ["House", 2, "f8", "g"]]]]
    stf = [["Ann", "Stiefel", D(3, 2, "c16", "stf")], ["Ann", "Stiefel", D(3, 2, "f8", "stf")],
           ["Ann", "Stiefel", ["Generic", [3, 2], "c16", "stf"]], ["Ann", "Stiefel", D(2, 1, "f8", "stf")]]
    sc = [["Scalar", "two", 2, "f8"], ["Scalar", "m3", 3, "f8"], ["Scalar", "cj", 2, "c16"], ["Scalar", "m1", 3, "f8"],
          ["Scalar", "i", 3, "c16"], ["Scalar", "zero", 2, "f8"]]
    return none + sa + psd + uni + stf + sc


C05_UNARY = {
    "T": AB.UNARY["T"], "H": AB.UNARY["H"], "neg": AB.UNARY["neg"],
    "lmul": lambda a: [["lmul", c, a] for c in ("two", "m3", "zero", "cj", "m1", "i", "half")],
    "rmul": lambda a: [["rmul", a, c] for c in ("m3", "arrcj")],
    "div": lambda a: [["div", a, "dm4"]],
    "gram": lambda a: [["gram", f, a] for f in ("HA", "TA", "AH", "AT")],
    "slice": lambda a: [["slice", a, rs, cs] for rs, cs in [
        (["s", 0, 2, None], ["s", 0, 2, None]), (["s", None, None, -1], ["s", None, None, -1]), (["s", 0, 2, None], ["s", 1, 3, None]),
        (["i", [0, 1]], ["i", [0, 1]]), (["i", [1, 0]], ["i", [0, 1]]), (["s", 0, 2, None], ["i", [0, 1]]),
        (["i", [0, 1]], ["s", 0, 2, None]), (["i", [0, 0]], ["i", [0, 0]]), (["s", None, None, None], ["s", None, None, None])]],
}
C05_UNARY_R = {k: C05_UNARY[k] for k in ("T", "H", "gram")}
C05_UNARY_R["lmul"] = lambda a: [["lmul", c, a] for c in ("m3", "i")]
C05_UNARY_R["slice"] = lambda a: [["slice", a, ["s", 0, 2, None], ["s", 0, 2, None]], ["slice", a, ["s", 0, 2, None], ["s", 1, 3, None]]]
C05_BINARY = {k: AB.BINARY[k] for k in ("matmul", "add", "sub", "kron", "kronsum", "BlockDiag", "Product", "Sum")}
C05_BINARY["BlockDiag"] = lambda a, b: [["BlockDiag", [a, b], m] for m in ([1, 1], [2, 1])]
C05_BINARY_R = {k: AB.BINARY[k] for k in ("matmul", "add", "kron")}
C05_BINARY_R["BlockDiag"] = lambda a, b: [["BlockDiag", [a, b], [2, 1]]]


def gen(tier):
    W = AB.with_shapes
    L = W(leaves())
    info = {"leaves": len(L)}
    l1 = AB.grow([L], unary=C05_UNARY, binary=C05_BINARY, ternary={k: AB.TERNARY[k] for k in ("Kronecker3", "KronSum3")}, ternary_pool=L[9:9 + 10] if tier == "quick" else L[5:25])
    l1r = AB.grow([L], unary=C05_UNARY_R, binary=C05_BINARY_R)
    quick_partners = [L[i] for i in (9, 10, 15, 16, 21, 24, 30, 31, 35, 37)]
    keep = {repr(t) for t, _ in (quick_partners if tier == "quick" else L)}
    if tier == "quick":
        un2 = {"T": AB.UNARY["T"], "H": AB.UNARY["H"], "gram": lambda a: [["gram", f, a] for f in ("HA", "AH")],
               "lmul": lambda a: [["lmul", "m3", a]]}
        bi2 = {k: AB.BINARY[k] for k in ("matmul", "add", "kron")}
        l1q = [(t, s) for t, s in l1r if t[0] in ("T", "H", "matmul", "add", "kron", "lmul", "gram", "slice")]
        l2 = AB.grow([L, l1q], unary=un2, binary=bi2, max_dim=30, partner=lambda a: repr(a) in keep)
    else:
        l2 = AB.grow([L, l1r], unary=C05_UNARY_R, binary=C05_BINARY_R, max_dim=30, partner=lambda a: repr(a) in keep)
    info.update({"size1": len(l1), "size1_reduced": len(l1r), "size2": len(l2)})
    terms = [t for t, _ in L + l1 + l2]
    if tier == "thorough":
        l3 = AB.grow([L, l1r, l2], unary={"H": AB.UNARY["H"], "lmul": lambda a: [["lmul", "m3", a]]},
                     binary={k: C05_BINARY_R[k] for k in ("matmul", "add")}, max_dim=12, cap=300000,
                     partner=lambda a: repr(a) in {repr(t) for t, _ in L[9:31]})
        info["size3"] = len(l3)
        info["size3_cap_hit"] = len(l3) >= 300000
        terms += [t for t, _ in l3]
    wraps = []
    for t, s in L:
        base = t
        while base[0] == "Ann":
            base = base[2]
        payload_var = base[3] if base[0] in ("Dense", "Generic") else None
        for name in ANNS:
            true_here = {
                "SelfAdjoint": payload_var in ("sym", "spd") or (base[0] == "Tridiag" and base[3] == "sym") or base[0] == "Identity"
                or (base[0] == "Diag" and base[2] == "f8") or (base[0] == "House" and base[3] == "g"),
                "PSD": payload_var == "spd" or base[0] == "Identity" or (base[0] == "Diag" and base[3] == "pos"),
                "Unitary": payload_var == "orth" or base[0] in ("Perm", "Identity", "FFT") or (base[0] == "House" and base[3] == "g"),
                "Stiefel": payload_var in ("orth", "stf") or base[0] in ("Perm", "Identity", "FFT") or (base[0] == "House" and base[3] == "g"),
            }[name]
            if true_here and s[0] >= 1:
                wraps.append(["WRAP", name, t])
    rc = routine_cases(tier)
    info.update({"wrap_cases": len(wraps), "routine_cases": len(rc)})
    seen, uniq = set(), []
    for t in terms + wraps + rc:
        k = repr(t)
        if k not in seen:
            seen.add(k)
            uniq.append(t)
    info["total_states"] = len(uniq)
    return uniq, info


def cases(tier, seed):
    terms, info = gen(tier)
    _DESC.update(info)
    return terms


def run_case(term, seed):
    return CHECKER.run(term, seed)


def case_signature(case):
    return sig(case)


def describe(tier, seed):
    return {
        "bound": "terms of size<=1 over 40 annotated leaves (every combination of true declarations) with all scalars/patterns, size<=2 "
                 "with reduced combinators" + (", size<=3 capped" if tier == "thorough" else "")
                 + "; declaration wrapper on every leaf x true annotation; outputs of lanczos/arnoldi/eig/svd/matrix functions/inv/"
                   "cholesky/plu for n<=" + ("4" if tier == "quick" else "6") + " and every truncation k",
        "alphabet": _DESC,
        "oracle": "reported annotation => property true of the reference matrix (exact tier: exact equality; otherwise 1e-8)",
        "exhaustive": not _DESC.get("size3_cap_hit", False),
    }
