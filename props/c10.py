"""C10 -- eig returns the requested eigenpairs of the represented matrix."""
import hashlib
import warnings

import numpy as np

import cola
import cola.linalg as L
from cola import ops
from mc import krylov as K
from mc import payload as P
from mc.termcheck import short

PROPERTY = "C10"
PAYLOAD_SEEDS = {"thorough": [0, 1, 2, 3]}  # the thorough tier repeats the whole enumeration for four payload seeds
ASSUMPTIONS = [
    "operators have a simple spectrum whose moduli are separated by >= 0.5 (so 'the k largest / smallest in magnitude' is unambiguous), "
    "eigenvector matrices with cond <= 10",
    "Lanczos / Arnoldi are run with max_iters >= n and tol 1e-12; power iteration is held to 10 x sqrt(its tolerance) on the eigenvalue",
    "returned values are compared as a multiset with the prescribed spectrum (1e-7 relative to ||A||)",
    "NumPy backend only; LOBPCG is excluded (float32 scipy delegate with unkeyed randomness, see C17)",
]

FAMILIES = ["sa_def", "sa_indef", "sa_def_c", "sa_indef_c", "gen_pairs", "gen_c", "Diagonal", "Diagonal_c", "TriLower", "TriUpper", "TriLower_c", "TriUpper_c", "Identity",
            "sa_indef@tiny", "sa_indef_c@huge", "gen_pairs@tiny", "gen_c@huge"]
ALGS = ["omitted", "Auto", "Eigh", "Eig", "Lanczos_n", "Lanczos_n2", "Lanczos_def", "Arnoldi_n", "Arnoldi_n2", "Arnoldi_def", "PowerIteration"]


def moduli(n):
    """n distinct moduli separated by >= 0.5"""
    return 1.0 + 0.75 * np.arange(n)


def family(fam, n, seed):
    """(operator, dense matrix, spectrum)"""
    if isinstance(fam, list):  # ["term", t]: an operator term of any kind; its spectrum comes from the reference matrix
        from mc.refmodel import ref
        from mc.terms import build
        M = ref(fam[1], seed).mat
        if np.max(np.abs(M.imag), initial=0.0) == 0:
            M = M.real.copy()
        return build(fam[1], seed), M, np.linalg.eigvals(M)
    base, _, scale = fam.partition("@")  # "@tiny" / "@huge": the same family at scale 2^-45 / 2^40 (eigenpairs scale with the operator)
    if scale:
        A0, M0, lam0 = family(base, n, seed)
        f = {"tiny": 2.0**-45, "huge": 2.0**40}[scale]
        A1 = ops.Dense(M0 * f)
        return (cola.SelfAdjoint(A1) if base.startswith("sa_") else A1), M0 * f, lam0 * f
    m = moduli(n)
    g = P.rng(seed, "c10", fam, n)
    if fam in ("sa_def", "sa_def_c"):
        lam = m[g.permutation(n)]
        A, _ = K.hermitian(seed, n, lam, fam.endswith("_c"), "c10sa")
        return cola.SelfAdjoint(ops.Dense(A)), A, lam
    if fam in ("sa_indef", "sa_indef_c"):
        lam = m * np.where(np.arange(n) % 2 == 0, -1.0, 1.0)  # the largest modulus is negative for odd n-1 ...
        lam = lam[g.permutation(n)]
        A, _ = K.hermitian(seed, n, lam, fam.endswith("_c"), "c10si")
        return cola.SelfAdjoint(ops.Dense(A)), A, lam
    if fam == "gen_pairs":
        # real matrix, complex-conjugate pairs with distinct moduli plus real eigenvalues of both signs
        B = np.zeros((n, n))
        lam, i, j = [], 0, 0
        while i < n:
            r = m[j]
            if i + 1 < n and j % 2 == 0:
                th = 0.7 + 0.2 * j
                a, b = r * np.cos(th), r * np.sin(th)
                B[i:i + 2, i:i + 2] = [[a, b], [-b, a]]
                lam += [a + 1j * b, a - 1j * b]
                i += 2
            else:
                B[i, i] = r * (-1 if j % 4 == 1 else 1)
                lam.append(B[i, i])
                i += 1
            j += 1
        U, W = K.unitary(seed, n, False, "c10U"), K.unitary(seed, n, False, "c10W")
        S = (U * np.linspace(1, 3, n)[None, :]) @ W.T
        A = (S @ B @ np.linalg.inv(S)).real
        return ops.Dense(A), A, np.array(lam)
    if fam == "gen_c":
        lam = m * np.exp(1j * np.linspace(0.3, 2.8, n))
        lam = lam[g.permutation(n)]
        A, _ = K.diagonalizable(seed, n, lam, True, 3.0, "c10gc")
        return ops.Dense(A), A, lam
    if fam in ("Diagonal", "Diagonal_c"):
        lam = (m * np.where(np.arange(n) % 2 == 0, 1.0, -1.0))[g.permutation(n)]
        if fam.endswith("_c"):
            lam = lam * np.exp(1j * np.linspace(0.2, 1.2, n))
        return ops.Diagonal(lam), np.diag(lam), lam
    if fam in ("TriLower", "TriUpper", "TriLower_c", "TriUpper_c"):
        cplx = fam.endswith("_c")
        lam = (m * np.where(np.arange(n) % 3 == 1, -1.0, 1.0))[g.permutation(n)]
        if cplx:
            lam = lam * np.exp(1j * np.linspace(0.1, 2.0, n))
        T = P.ints(g, (n, n), -1, 1, cplx=cplx) * 0.5
        T = np.tril(T, -1) if fam.startswith("TriLower") else np.triu(T, 1)
        T = T + np.diag(lam)
        return ops.Triangular(T, lower=fam.startswith("TriLower")), T, lam
    if fam == "Identity":
        return ops.Identity((n, n), np.float64), np.eye(n), np.ones(n)
    raise ValueError(fam)


def make_alg(name, n):
    return {"omitted": None, "Auto": L.Auto(), "Eigh": L.Eigh(), "Eig": L.Eig(),
            "Lanczos_n": L.Lanczos(max_iters=n, tol=1e-12), "Lanczos_n2": L.Lanczos(max_iters=n + 2, tol=1e-12), "Lanczos_def": L.Lanczos(tol=1e-12),
            "Arnoldi_n": L.Arnoldi(max_iters=n, tol=1e-12), "Arnoldi_n2": L.Arnoldi(max_iters=n + 2, tol=1e-12), "Arnoldi_def": L.Arnoldi(tol=1e-12),
            "PowerIteration": L.PowerIteration(tol=1e-12, max_iter=4000)}[name]


def want_values(lam, k, which):
    order = np.argsort(np.abs(lam))
    return lam[order[-k:]] if which == "LM" else lam[order[:k]]


def multiset_dist(a, b):
    """max over the greedy matching of |a_i - b_j| (sets are tiny)"""
    a, b = list(np.asarray(a, dtype=np.complex128)), list(np.asarray(b, dtype=np.complex128))
    if len(a) != len(b):
        return np.inf
    d = 0.0
    for x in a:
        j = int(np.argmin([abs(x - y) for y in b]))
        d = max(d, abs(x - b[j]))
        b.pop(j)
    return d


def _best_subset(vals, cand):
    """greedy choice of len(vals) distinct candidates closest to vals"""
    cand = list(cand)
    out = []
    for x in vals:
        if not cand:
            break
        j = int(np.argmin([abs(x - y) for y in cand]))
        out.append(cand.pop(j))
    return out


def term_family(tier):
    from mc import alphabet as AB
    from mc import invfam
    L_ = AB.with_shapes(invfam.leaves() + [AB.D(3, 3, "f8", "sym"), AB.D(3, 3, "c16", "sym"), ["Ann", "SelfAdjoint", AB.D(3, 3, "f8", "sym")],
                                           ["Ann", "SelfAdjoint", AB.D(2, 2, "c16", "sym")]])
    un = {"T": AB.UNARY["T"], "H": AB.UNARY["H"], "lmul": lambda a: [["lmul", "cj", a]], "NoDisp": AB.UNARY["NoDisp"]}
    bi = {"matmul": AB.BINARY["matmul"], "kron": AB.BINARY["kron"], "BlockDiag": lambda a, b: [["BlockDiag", [a, b], [1, 1]]], "add": AB.BINARY["add"],
          "kronsum": AB.BINARY["kronsum"]}
    sq = lambda ps: [(t, s) for t, s in ps if s[0] == s[1]]  # noqa: E731
    if tier == "quick":
        pk = {repr(L_[i][0]) for i in (1, 2, 6, 8, 12, 16, 31)}
        Lp = [(t, sh) for t, sh in L_ if repr(t) in pk]
        l1 = AB.grow([L_], unary=un, binary={}, max_dim=12) + AB.grow([Lp], unary={}, binary=bi, max_dim=12)
    else:
        l1 = AB.grow([L_], unary=un, binary=bi, max_dim=16)
    return [t for t, _ in sq(L_ + l1)]


def run_large(case, seed):
    """beyond the automatic switch (1001 x 1001) Auto() selects Lanczos (declared self-adjoint) / Arnoldi, and PowerIteration for the dominant
    pair: identity plus rank 3 given by its matmat; the eigenvalues different from 1 are known in closed form"""
    from mc import large
    _, psd, algname = case
    n = 1001
    mm, U, W = large.lowrank_identity(seed, n, psd, "c10")
    M = np.eye(n) + U @ W.T
    A = ops.LinearOperator(np.float64, (n, n), matmat=mm)
    if psd:
        A = cola.SelfAdjoint(A)
    top = large.spectrum(U, W)
    top = top[np.argsort(-np.abs(top))]
    vio, ntr = [], 0

    def bad(sym, detail):
        key = f"C10|large-operator|{sym}|{algname}|{'selfadjoint' if psd else 'general'}"
        if not any(v["key"] == key for v in vio):
            vio.append({"key": key, "what": f"eig on a 1001 x 1001 {'self-adjoint' if psd else 'general'} operator with {algname}: {sym}", "detail": detail})

    with warnings.catch_warnings():
        warnings.simplefilter("ignore")
        ks = (1, 2, 3)
        for k in ks:
            ntr += 1
            try:
                vals, V = L.eig(A, k, "LM") if algname == "omitted" else L.eig(A, k, "LM", L.Auto())
                vals = np.asarray(vals).reshape(-1)
                Vd = np.asarray(V.to_dense() if isinstance(V, ops.LinearOperator) else V).reshape(n, -1)
            except Exception as e:
                bad(f"exc:{type(e).__name__}", {"msg": str(e)[:300], "k": k})
                continue
            if vals.shape != (k, ) or Vd.shape != (n, k):
                bad("shape", {"values": list(vals.shape), "vectors": list(Vd.shape), "k": k})
                continue
            if multiset_dist(vals, top[:k]) > 1e-5:
                bad("wrong-eigenvalues", {"got": [complex(x) for x in vals], "want": [complex(x) for x in top[:k]], "k": k})
            res = np.linalg.norm(M @ Vd - Vd * vals[None, :], axis=0) / np.maximum(np.linalg.norm(Vd, axis=0), 1e-300)
            if np.any(res > (1e-2 if k == 1 else 1e-4)):  # k = 1: Auto's PowerIteration(tol=1e-6) stops on the eigenVALUE; as for small operators
                bad("not-eigenpairs", {"residuals": res.tolist(), "k": k})
        ntr += 1
        try:
            e = complex(np.asarray(L.eigmax(A) if algname == "omitted" else L.eigmax(A, L.Auto())).reshape(-1)[0])
            if abs(e - top[0]) > 1e-3 * abs(top[0]):
                bad("eigmax-wrong", {"got": e, "want": complex(top[0])})
        except Exception as ex:
            bad(f"eigmax-exc:{type(ex).__name__}", {"msg": str(ex)[:300]})
    return {"states": len(ks) + 1, "transitions": ntr, "outcome": f"large:{len(vio)}", "violations": vio}


def run_case(case, seed):
    if case[0] == "LARGE":
        return run_large(case, seed)
    fam, n, algname = case
    vio = []
    ntr = 0
    h = hashlib.sha256()
    with warnings.catch_warnings():
        warnings.simplefilter("ignore")
        A, M, lam = family(fam, n, seed)
        normA = float(np.linalg.norm(M, 2))
        if isinstance(fam, list):
            from mc.refmodel import coarse_signature
            n = M.shape[0]
            mods_ = np.sort(np.abs(lam))
            herm = bool(np.allclose(M, M.conj().T, rtol=0, atol=1e-12 * max(normA, 1e-300)))
            condV = 1.0 if herm else float(np.linalg.cond(np.linalg.eig(M)[1]))
            gap = min([abs(a - b) for i, a in enumerate(lam) for b in lam[i + 1:]], default=np.inf)
            if normA == 0 or gap < 1e-3 * mods_[-1] or condV > 1e3 or (algname == "PowerIteration" and n > 1 and mods_[-2] > 0.99 * mods_[-1]):
                # the property is about simple, well-separated spectra: repeated eigenvalues (identity / repeated blocks) are counted only; ties
                # in MODULUS between distinct eigenvalues (+-2, conjugate pairs) are judged (either member is accepted at the cut) except by
                # power iteration, which cannot separate them
                return {"states": 0, "transitions": 1, "outcome": "not-judged", "violations": [], "notes": {"terms_not_judged_repeated_eigenvalues_or_illconditioned": 1}}
            fam = "term:" + coarse_signature(case[0][1])
            sa = herm and A.isa(cola.SelfAdjoint)
            if algname.startswith(("Lanczos", "Eigh")) and not sa:
                return {"states": 0, "transitions": 1, "outcome": "not-admissible", "violations": [], "notes": {"hermitian_algorithms_not_admissible_on_this_term": 1}}
        else:
            sa = fam.startswith("sa_")
        power = algname == "PowerIteration"
        dom = lam[np.argmax(np.abs(lam))]
        real_with_complex_dominant = (not np.iscomplexobj(M)) and abs(complex(dom).imag) > 1e-12 * abs(complex(dom))
        combos = [(1, "LM")] if power else [(k, w) for k in range(1, n + 1) for w in ("LM", "SM")]
        mods = np.sort(np.abs(lam))
        slow_power = n > 1 and (mods[-2] / mods[-1])**100 > 1e-6  # (1e-4 left no room for the eigenvector conditioning of non-normal terms) Auto's PowerIteration(max_iter=100) cannot converge for this gap
        if slow_power and algname in ("omitted", "Auto"):
            combos = [c for c in combos if c != (1, "LM")]
        if real_with_complex_dominant:
            # power iteration (also chosen by Auto for k=1, LM) cannot converge to a complex-conjugate dominant pair of a real matrix
            if power:
                return {"states": 0, "transitions": 0, "outcome": "skipped-complex-dominant-pair", "violations": [], "notes": {"skipped_power_complex_pair": 1}}
            if algname in ("omitted", "Auto"):
                combos = [c for c in combos if c != (1, "LM")]
        for k, which in combos:
            kc = "k=n" if k == n else ("k=1" if k == 1 else "1<k<n")

            def bad(obs, sym, detail):
                key = f"C10|{obs}|{sym}|{algname}|{fam}|{which}|{kc}"
                if not any(v["key"] == key for v in vio):
                    vio.append({"key": key, "what": f"eig {obs}: {sym} ({algname}, {fam}, {which}, {kc})",
                                "detail": {**detail, "n": n, "k": k, "spectrum": [complex(x) for x in lam]}})

            ntr += 1
            alg = make_alg(algname, n)
            try:
                vals, V = L.eig(A, k, which) if alg is None else L.eig(A, k, which, alg)
            except Exception as e:
                if isinstance(e, AssertionError) and algname.startswith(("Lanczos", "Eigh")) and not A.isa(cola.SelfAdjoint):
                    continue
                bad("call", f"exc:{type(e).__name__}", {"msg": str(e)[:300]})
                continue
            try:
                vals = np.asarray(vals).reshape(-1)
                Vd = np.asarray(V.to_dense() if isinstance(V, ops.LinearOperator) else V)
            except Exception as e:
                bad("result", f"exc:{type(e).__name__}", {"msg": str(e)[:300]})
                continue
            if vals.shape != (k, ) or Vd.shape != (n, k):
                bad("shape", "shape", {"values": list(vals.shape), "vectors": list(Vd.shape), "want": [[k], [n, k]]})
                continue
            if not (np.all(np.isfinite(vals)) and np.all(np.isfinite(Vd))):
                bad("result", "nonfinite", {"values": short(vals)})
                continue
            auto_power = algname in ("omitted", "Auto") and (k, which) == (1, "LM")  # Auto picks PowerIteration(tol=1e-6, max_iter=100)
            tolv = (10 * np.sqrt(1e-12) if power else ((1e-4 if sa else 1e-3) if auto_power else 1e-7)) * normA
            want = want_values(lam, k, which)
            # the moduli must be those of the k extreme eigenvalues and every value a distinct eigenvalue; when the cut splits a
            # complex-conjugate pair (equal moduli) either member is accepted
            d_mod = float(np.max(np.abs(np.sort(np.abs(vals)) - np.sort(np.abs(want)))))
            cand = [x for x in lam if np.min(np.abs(np.abs(x) - np.abs(want))) <= 1e-9]
            d = max(d_mod, multiset_dist(vals, _best_subset(vals, cand)))
            if d > tolv:
                bad("values", "wrong-eigenvalues", {"got": [complex(x) for x in vals], "want": [complex(x) for x in want], "dist": float(d)})
            res = np.linalg.norm(M @ Vd - Vd * vals[None, :], axis=0)
            vn = np.linalg.norm(Vd, axis=0)
            if np.any(vn == 0):
                bad("vectors", "zero-vector", {})
            elif np.any(res > (1e-4 if power else (1e-2 if auto_power else 1e-7)) * normA * vn):
                bad("vectors", "not-eigenpairs", {"residuals": [float(x) for x in res / (normA * vn)], "values": [complex(x) for x in vals]})
            else:
                smin = np.linalg.svd(Vd / vn[None, :], compute_uv=False).min()
                if smin < 1e-6:
                    bad("vectors", "linearly-dependent", {"sigma_min": float(smin)})
                if sa and np.max(np.abs(Vd.conj().T @ Vd - np.eye(k))) > 1e-7:
                    bad("vectors", "not-orthonormal", {"err": float(np.max(np.abs(Vd.conj().T @ Vd - np.eye(k))))})
            h.update(np.round(np.sort_complex(vals.astype(np.complex128)), 5).tobytes())
        # eigmax / eigmin agree with eig
        for fn, which in ((L.eigmax, "LM"), (L.eigmin, "SM")):
            if power and which == "SM":
                continue
            if (real_with_complex_dominant or slow_power) and which == "LM" and algname in ("omitted", "Auto"):
                continue
            ntr += 1
            alg = make_alg(algname, n)
            try:
                e = fn(A) if alg is None else fn(A, alg)
                e = complex(np.asarray(e).reshape(-1)[0])
                want = want_values(lam, 1, which)[0]
                ties = [x for x in lam if abs(abs(x) - abs(want)) <= 1e-9 * max(normA, 1e-300)]  # eigenvalues of the same extreme modulus:
                want = min(ties, key=lambda x: abs(e - x))  # a complex-conjugate pair of a real matrix, +-r: either member is "the" extreme one
                loose = algname in ("omitted", "Auto") and which == "LM"
                if not np.isfinite(e) or abs(e - want) > (10 * np.sqrt(1e-12) if power else ((1e-4 if sa else 1e-3) if loose else 1e-7)) * normA:
                    vio.append({"key": f"C10|{fn.__name__}|value|{algname}|{fam}", "what": f"{fn.__name__} wrong ({algname}, {fam})",
                                "detail": {"got": e, "want": complex(want), "n": n}})
            except Exception as ex:
                if isinstance(ex, AssertionError) and algname.startswith(("Lanczos", "Eigh")) and not A.isa(cola.SelfAdjoint):
                    continue
                vio.append({"key": f"C10|{fn.__name__}|exc:{type(ex).__name__}|{algname}|{fam}", "what": f"{fn.__name__} raised ({algname}, {fam})",
                            "detail": {"msg": str(ex)[:300], "n": n}})
    return {"states": len(combos), "transitions": ntr, "outcome": h.hexdigest()[:12], "violations": vio}


_DESC = {}


def cases(tier, seed):
    ns = [1, 2, 3, 4, 5] if tier == "quick" else [1, 2, 3, 4, 5, 6, 8, 12, 20]
    out = []
    for fam in FAMILIES:
        for n in ns:
            for a in ALGS:
                if a.startswith(("Lanczos", "Eigh")) and not fam.startswith("sa_"):
                    continue
                if a.endswith("_def") and tier == "quick" and n not in (2, 5):
                    continue
                out.append([fam, n, a])
    for psd in (True, False):
        for a in (("omitted", ) if tier == "quick" else ("omitted", "Auto")):
            out.append(["LARGE", psd, a])
    tf = term_family(tier)
    for t in tf:
        for a in ("omitted", "Auto", "Eig", "Eigh", "Lanczos_n2", "Arnoldi_n2", "PowerIteration") if tier == "quick" else ALGS:
            out.append([["term", t], 0, a])
    _DESC.update({"families": FAMILIES, "operator_terms": len(tf), "sizes": ns, "algorithms": ALGS, "work_items": len(out)})
    return out


def case_signature(case):
    return ",".join(map(str, case))[:120]


def describe(tier, seed):
    return {
        "bound": "families {self-adjoint definite / indefinite (real, complex), general real with complex-conjugate pairs, complex, Diagonal "
                 "unsorted with negatives (real, complex), Triangular lower / upper, Identity; self-adjoint indefinite and general families at scale 2^-45 / 2^40} x n in " + str(_DESC.get("sizes"))
                 + "; 1001 x 1001 identity-plus-rank-3 operators (self-adjoint / general) beyond the automatic switch; operator terms of every kind with an inverse rule plus symmetric / declared self-adjoint leaves, depth-1 nesting (T, H, scalar, no_dispatch, +, @, kron, "
                 "kronsum, BlockDiag), judged when the moduli are separated and the eigenvectors well conditioned; x ALL 1<=k<=n x {LM, SM} x 11 algorithm settings (iteration caps n, n+2, default 1000), eigmax / eigmin",
        "alphabet": _DESC,
        "oracle": "returned values = the k largest / smallest-modulus eigenvalues of the prescribed spectrum (multiset, 1e-7 ||A||); every pair "
                  "satisfies ||Av - lv|| <= 1e-7 ||A|| ||v||, v != 0, vectors independent (orthonormal for self-adjoint input)",
    }
