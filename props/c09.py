"""C09 -- matrix functions exp / log / sqrt / isqrt / pow / apply_unary equal f of the matrix."""
import hashlib
import warnings

import numpy as np

import cola
import cola.linalg as L
from cola import ops
from mc import krylov as K
from mc import payload as P
from mc.termcheck import short

PROPERTY = "C09"
PAYLOAD_SEEDS = {"thorough": [0, 1, 2, 3]}  # the thorough tier repeats the whole enumeration for four payload seeds
ASSUMPTIONS = [
    "operators are diagonalisable with well-conditioned eigenvectors (cond(V) <= 10) and spectrum inside the function's domain "
    "(open right half plane for log / sqrt / fractional powers; singular PSD only for exp)",
    "the reference f(A) = V f(lambda) V^-1 is built from the generating factors (or from numpy's eigendecomposition of the exact "
    "reference matrix for structured operators) and cross-checked with scipy expm / logm / sqrtm",
    "tolerance 1e-7 relative to ||f(A) x|| on dense paths, 1e-6 on Lanczos / Arnoldi paths run to the full Krylov dimension",
    "NumPy backend only; the batched Lanczos / Arnoldi paths run through the harness vmap shim",
]

POWS = [-2, -1, -0.5, 0, 0.5, 1, 2, 3, 9, 10, 2.5]
FUNCS = ["exp", "log", "sqrt", "isqrt"] + [f"pow{a}" for a in POWS] + ["unary_sq1", "unary_cos", "unary_expi"]  # expi(z) = exp(0.5j z): NOT conjugate-symmetric
ALGS = ["omitted", "Auto", "Eig", "Eigh", "Lanczos_n", "Lanczos_n3", "Arnoldi_n", "Arnoldi_n3"]


def scalar_fn(name):
    if name == "exp":
        return np.exp
    if name == "log":
        return np.log
    if name == "sqrt":
        return np.sqrt
    if name == "isqrt":
        return lambda x: 1 / np.sqrt(x)
    if name.startswith("pow"):
        a = float(name[3:])
        return lambda x: np.asarray(x, dtype=np.complex128)**a
    if name == "unary_sq1":
        return lambda x: x**2 + 1
    if name == "unary_cos":
        return np.cos
    if name == "unary_expi":
        return lambda x: np.exp(0.5j * np.asarray(x, dtype=np.complex128))
    raise ValueError(name)


def real_with_pairs(seed, n):
    """real matrix S B S^-1 with B block diagonal: 2x2 rotation-scaling blocks (complex-conjugate eigenvalue pairs in the
    open right half plane) and real positive eigenvalues; returns (A, eigenvalues)"""
    g = P.rng(seed, "c09pairs", n)
    B = np.zeros((n, n))
    lam = []
    i = 0
    j = 0
    while i < n:
        if i + 1 < n and j % 2 == 0:
            a, b = 1.0 + 0.5 * j, 0.5 + 0.25 * j
            B[i:i + 2, i:i + 2] = [[a, b], [-b, a]]
            lam += [a + 1j * b, a - 1j * b]
            i += 2
        else:
            B[i, i] = 0.75 + 0.6 * j
            lam.append(B[i, i])
            i += 1
        j += 1
    U, W = K.unitary(seed, n, False, "c09U"), K.unitary(seed, n, False, "c09W")
    S = (U * np.linspace(1, 3, n)[None, :]) @ W.T
    return (S @ B @ np.linalg.inv(S)).real, np.array(lam)


def family(spec, seed):
    """returns (cola operator, dense reference matrix, flags)"""
    kind = spec[0]
    if kind == "psd":
        _, n, c = spec
        M, _ = K.hermitian(seed, n, np.linspace(0.5, 4, n) if n > 1 else np.array([2.0]), c, "c09psd")
        return cola.PSD(ops.Dense(M)), M
    if kind == "sing":
        _, n, c = spec
        lam = np.concatenate([[0.0], np.linspace(0.5, 3, n - 1)]) if n > 1 else np.array([0.0])
        M, _ = K.hermitian(seed, n, lam, c, "c09sing")
        return cola.PSD(ops.Dense(M)), M
    if kind == "gen":
        _, n, c = spec
        if c:
            lam = np.linspace(0.8, 3.5, n) * np.exp(1j * np.linspace(-1.0, 1.0, n))
            M, _ = K.diagonalizable(seed, n, lam, True, 3.0, "c09gen")
        else:
            M, _ = real_with_pairs(seed, n)
        return ops.Dense(M), M
    if kind == "Diagonal":
        _, n, c = spec
        d = np.linspace(0.5, 4, n) * (np.exp(1j * np.linspace(-1, 1, n)) if c else 1)
        return ops.Diagonal(d), np.diag(d)
    if kind == "Identity":
        return ops.Identity((spec[1], spec[1]), np.complex128 if spec[2] else np.float64), np.eye(spec[1])
    if kind == "ScalarMul":
        c = (1.5 + 1j) if spec[2] else 2.5
        return ops.ScalarMul(c, (spec[1], spec[1]), dtype=np.complex128 if spec[2] else np.float64), c * np.eye(spec[1])
    if kind == "BlockDiag":
        _, a, b, mult = spec
        A, Ma = family(a, seed)
        B, Mb = family(b, seed + 1)
        from scipy.linalg import block_diag
        return ops.BlockDiag(A, B, multiplicities=list(mult)), block_diag(*([Ma] * mult[0] + [Mb] * mult[1]))
    if kind == "Transpose":
        A, M = family(spec[1], seed)
        G = ops.LinearOperator(A.dtype, A.shape, matmat=lambda X, M=M: M @ X)
        return ops.Transpose(G), M.T
    if kind == "Adjoint":
        A, M = family(spec[1], seed)
        G = ops.LinearOperator(A.dtype, A.shape, matmat=lambda X, M=M: M @ X)
        return ops.Adjoint(G), M.conj().T
    if kind == "TofStruct":
        A, M = family(spec[1], seed)
        return ops.Transpose(A), M.T
    if kind == "KronSum":
        parts = [family(s, seed + i) for i, s in enumerate(spec[1])]
        M = parts[0][1]
        for _, Mi in parts[1:]:
            M = np.kron(M, np.eye(Mi.shape[0])) + np.kron(np.eye(M.shape[0]), Mi)
        return ops.KronSum(*[p[0] for p in parts]), M
    if kind == "Kronecker":
        parts = [family(s, seed + i) for i, s in enumerate(spec[1])]
        M = parts[0][1]
        for _, Mi in parts[1:]:
            M = np.kron(M, Mi)
        return ops.Kronecker(*[p[0] for p in parts]), M
    raise ValueError(kind)


def is_psd_spec(spec):
    k = spec[0]
    if k in ("psd", "sing", "Identity"):
        return True
    if k in ("KronSum", "Kronecker"):
        return all(is_psd_spec(s) for s in spec[1])
    if k == "BlockDiag":
        return is_psd_spec(spec[1]) and is_psd_spec(spec[2])
    return False


def spec_class(spec):
    k = spec[0]
    if k in ("psd", "sing", "gen", "Diagonal", "Identity", "ScalarMul"):
        return f"{k}{'C' if spec[2] else 'R'}"
    if k == "BlockDiag":
        return f"BlockDiag({spec_class(spec[1])},{spec_class(spec[2])})"
    if k in ("Transpose", "Adjoint", "TofStruct"):
        return f"{k}({spec_class(spec[1])})"
    return f"{k}({','.join(spec_class(s) for s in spec[1])})"


def fmat(M, f):
    """f(M) through the eigendecomposition of the reference matrix; returns (F, cond of the eigenvector matrix)"""
    M = np.asarray(M, dtype=np.complex128)
    if np.allclose(M, M.conj().T, atol=1e-13 * max(1, np.abs(M).max())):
        w, V = np.linalg.eigh(M)
        return (V * f(w.astype(np.complex128))[None, :]) @ V.conj().T, 1.0
    w, V = np.linalg.eig(M)
    return (V * f(w)[None, :]) @ np.linalg.inv(V), float(np.linalg.cond(V))


def make_alg(name, n):
    return {"omitted": None, "Auto": L.Auto(), "Eig": L.Eig(), "Eigh": L.Eigh(), "Lanczos_n": L.Lanczos(max_iters=n, tol=1e-13),
            "Lanczos_n3": L.Lanczos(max_iters=n + 3, tol=1e-13), "Arnoldi_n": L.Arnoldi(max_iters=n, tol=1e-13),
            "Arnoldi_n3": L.Arnoldi(max_iters=n + 3, tol=1e-13)}[name]


def apply(fn, A, alg):
    args = () if alg is None else (alg, )
    if fn in ("exp", "log", "sqrt", "isqrt"):
        return getattr(L, fn)(A, *args)
    if fn.startswith("pow"):
        a = float(fn[3:])
        a = int(a) if a == int(a) else a
        return L.pow(A, a, *args)
    if fn == "unary_sq1":
        return L.apply_unary(lambda x: x**2 + 1, A, *args)
    if fn == "unary_cos":
        return L.apply_unary(np.cos, A, *args)
    if fn == "unary_expi":
        return L.apply_unary(lambda x: np.exp(0.5j * x), A, *args)
    raise ValueError(fn)


NPF = {"exp": np.exp, "log": np.log, "sqrt": np.sqrt, "isqrt": lambda z: z**-0.5, "pow-1": lambda z: 1 / z, "pow2.5": lambda z: z**2.5}


def run_large(case, seed):
    """beyond the automatic switch (1001 x 1001 > 10^6 entries) Auto() hands the function to Lanczos (declared PSD) / Arnoldi: identity plus rank 3,
    known only through its matmat, closed-form reference"""
    from mc import large
    _, fn, psd, algname = case
    n = 1001
    mm, U, W = large.lowrank_identity(seed, n, psd, "c09")
    A = ops.LinearOperator(np.float64, (n, n), matmat=mm)
    if psd:
        A = cola.PSD(A)
    g = P.rng(seed, "c09large", fn, psd)
    X = g.standard_normal((n, 2))
    vio = []
    with warnings.catch_warnings():
        warnings.simplefilter("ignore")
        try:
            fA = apply(fn, A, None if algname == "omitted" else L.Auto())
            Y = np.asarray(fA @ X)
            want = np.stack([large.f_apply(NPF[fn], U, W, X[:, j]) for j in range(2)], axis=1)
            err = float(np.linalg.norm(Y - want) / np.linalg.norm(want)) if Y.shape == want.shape else np.inf
            if not np.isfinite(err) or err > 1e-5:
                vio.append({"key": f"C09|{fn}|large-operator|value|{algname}|{'psd' if psd else 'general'}", "what": f"{fn}(A) @ X with {algname} on a 1001 x 1001 "
                            f"{'PSD' if psd else 'general'} operator: relative error {err:.2e}", "detail": {"rel_err": err, "result_type": type(fA).__name__}})
            out = f"large:{type(fA).__name__.split('[')[0]}"
        except Exception as e:
            vio.append({"key": f"C09|{fn}|large-operator|exc:{type(e).__name__}|{algname}|{'psd' if psd else 'general'}", "what": f"{fn} on a 1001 x 1001 operator raised",
                        "detail": {"msg": str(e)[:300]}})
            out = "large:exc"
    return {"transitions": 2, "outcome": out, "violations": vio}


def run_case(case, seed):
    if case[0] == "LARGE":
        return run_large(case, seed)
    spec, fn, algname = case
    vio = []
    cls = spec_class(spec)

    def bad(obs, sym, detail):
        vio.append({"key": f"C09|{fn}|{obs}|{sym}|{algname}|{cls}", "what": f"{fn} {obs}: {sym} with {algname} on {cls}",
                    "detail": {**detail, "spec": spec}})

    ntr = 0
    maxerr = 0.0
    h = hashlib.sha256()
    with warnings.catch_warnings():
        warnings.simplefilter("ignore")
        A, M = family(spec, seed)
        n = M.shape[0]
        F, condV = fmat(M, scalar_fn(fn))
        if condV > 1e4 or not np.all(np.isfinite(F)):
            return {"transitions": 0, "outcome": "skipped-illconditioned-reference", "violations": [], "notes": {"reference_skipped": 1}}
        krylov = algname.startswith(("Lanczos", "Arnoldi"))
        tol = 1e-6 if krylov else 1e-7
        try:
            fA = apply(fn, A, make_alg(algname, n))
        except Exception as e:
            if isinstance(e, AssertionError) and algname in ("Eigh", "Lanczos_n", "Lanczos_n3") and not A.isa(cola.SelfAdjoint):
                # the operator does not report self-adjointness (e.g. KronSum has no annotation rule): the selected rule refuses
                return {"transitions": 1, "outcome": "refused-not-selfadjoint", "violations": [], "notes": {"refused_not_selfadjoint": 1}}
            bad("call", f"exc:{type(e).__name__}", {"msg": str(e)[:300]})
            return {"transitions": 1, "outcome": "exc", "violations": vio}
        g = P.rng(seed, "c09x", n)
        xs = [("x1", g.standard_normal(n)), ("X2", g.standard_normal((n, 2)))]
        if np.iscomplexobj(M):
            xs.append(("x1c", g.standard_normal(n) + 1j * g.standard_normal(n)))
        xs.append(("Xzero", np.stack([g.standard_normal(n), np.zeros(n)], axis=1)))  # f(A) 0 = 0, next to a generic column
        xs.append(("Xempty", np.zeros((n, 0))))  # an empty block of operands
        if n >= 3:
            # heterogeneous batch: an eigenvector (its Krylov space is exhausted after one step), a random column, a sum of two eigenvectors
            w_, V_ = (np.linalg.eigh(M) if np.allclose(M, np.conj(M).T) else np.linalg.eig(M))
            mix = np.stack([V_[:, 0], (g.standard_normal(n) + 0j), V_[:, 0] + 2 * V_[:, -1]], axis=1)
            xs.append(("Xmix", mix if np.iscomplexobj(M) or np.max(np.abs(mix.imag)) > 1e-12 else mix.real))
        for tag, x in xs:
            ntr += 1
            want = F @ x
            try:
                y = np.asarray(fA @ x)
            except Exception as e:
                bad(f"@{tag}", f"exc:{type(e).__name__}", {"msg": str(e)[:300]})
                continue
            if y.shape != want.shape:
                bad(f"@{tag}", "shape", {"got": list(y.shape), "want": list(want.shape)})
                continue
            err = float(np.linalg.norm(y - want) / max(np.linalg.norm(want), 1e-300))
            maxerr = max(maxerr, err if np.isfinite(err) else 1.0)
            if not np.all(np.isfinite(y)) or err > tol:
                bad(f"@{tag}", "value", {"rel_err": err, "got": short(y), "want": short(want)})
            h.update(np.round(y / (np.abs(want).max(initial=0.0) + 1e-300), 5).tobytes())
        # operand dtype independence: a float32 (complex64) / integer operand holds values that double precision represents exactly, and the
        # result has the promoted dtype, so f(A) @ x must not depend on the dtype the operand arrives in
        for tag, xl in (("x1lowp", xs[0][1].astype(np.float32)), ("X2lowp", (xs[1][1] + (1j * xs[1][1][::-1] if np.iscomplexobj(M) else 0)).astype(
                np.complex64 if np.iscomplexobj(M) else np.float32)), ("x1int", np.round(3 * xs[0][1]).astype(np.int64) + 1)):
            ntr += 1
            try:
                y_narrow = np.asarray(fA @ xl)
                y_wide = np.asarray(fA @ xl.astype(np.complex128 if np.iscomplexobj(xl) else np.float64))
                dev = float(np.linalg.norm(y_narrow - y_wide) / max(np.linalg.norm(y_wide), 1e-300))
                if y_narrow.shape != y_wide.shape or not np.isfinite(dev) or dev > 1e-10:
                    bad(f"@{tag}", "depends-on-operand-dtype", {"rel_dev": dev, "narrow": short(y_narrow), "wide": short(y_wide)})
            except Exception as e:
                bad(f"@{tag}", f"exc:{type(e).__name__}", {"msg": str(e)[:300]})
        # algebraic identities on the operator that was returned
        x = xs[0][1]
        try:
            if fn == "sqrt":
                ntr += 1
                y = np.asarray(fA @ np.asarray(fA @ x))
                err = float(np.linalg.norm(y - M @ x) / np.linalg.norm(M @ x))
                if err > 10 * tol:
                    bad("sqrt-twice", "value", {"rel_err": err})
            if fn == "pow-1.0" or fn == "pow-1":
                ntr += 1
                y = np.asarray(fA @ x)
                err = float(np.linalg.norm(M @ y - x) / np.linalg.norm(x))
                if err > 10 * tol:
                    bad("pow(-1)-solves", "residual", {"rel_res": err})
            if fn.startswith("pow") and float(fn[3:]) in (2.0, 3.0) and not krylov:
                ntr += 1
                y = np.asarray(fA @ x)
                w = x.astype(np.complex128)
                for _ in range(int(float(fn[3:]))):
                    w = M @ w
                err = float(np.linalg.norm(y - w) / np.linalg.norm(w))
                if err > 1e-9:
                    bad("integer-power", "value", {"rel_err": err})
        except Exception as e:
            bad("identity", f"exc:{type(e).__name__}", {"msg": str(e)[:300]})
    return {"transitions": ntr, "outcome": h.hexdigest()[:12], "violations": vio, "notes": {"max_observed_error": {"max": maxerr}},
            "sample_obs": {"result_type": type(fA).__name__.split("[")[0]}}


def specs(tier):
    S = []
    ns = [1, 2, 3, 4, 5, 6, 8, 12, 20] if tier == "thorough" else [1, 2, 3, 5]
    for n in ns:
        for c in (False, True):
            S += [["psd", n, c], ["gen", n, c], ["Diagonal", n, c]]
        S.append(["sing", n, False])
        if n > 1:
            S.append(["sing", n, True])
    S += [["Identity", 3, False], ["Identity", 2, True], ["ScalarMul", 3, False], ["ScalarMul", 2, True]]
    p2, p3, g2, g3c, d3 = ["psd", 2, False], ["psd", 3, True], ["gen", 2, False], ["gen", 3, True], ["Diagonal", 3, False]
    S += [
        ["BlockDiag", p2, d3, [2, 1]], ["BlockDiag", g2, g3c, [1, 2]], ["BlockDiag", p3, ["Identity", 2, False], [1, 1]],
        ["Transpose", g3c], ["Transpose", ["gen", 3, False]], ["Adjoint", g3c], ["Adjoint", p3], ["Adjoint", ["gen", 3, False]], ["Transpose", p2],
        ["KronSum", [p2, p3]], ["KronSum", [p2, d3, ["psd", 2, True]]], ["KronSum", [g2, d3]],
        ["Kronecker", [p2, p3]], ["Kronecker", [p2, d3, ["psd", 2, True]]], ["Kronecker", [g2, ["Diagonal", 2, True]]],
        # depth 2
        ["BlockDiag", ["KronSum", [p2, p2]], d3, [1, 2]], ["BlockDiag", ["Kronecker", [p2, d3]], p2, [1, 1]],
        ["TofStruct", ["BlockDiag", g2, d3, [2, 1]]], ["TofStruct", ["Kronecker", [g2, d3]]], ["TofStruct", ["KronSum", [g2, p2]]],
        ["Kronecker", [["Kronecker", [p2, d3]], p2]], ["KronSum", [["KronSum", [p2, p2]], d3]],
        ["BlockDiag", ["BlockDiag", p2, d3, [1, 1]], p3, [2, 1]],
    ]
    return S


_DESC = {}


def cases(tier, seed):
    out = []
    S = specs(tier)
    for sp in S:
        psd = is_psd_spec(sp)
        sing = "sing" in repr(sp)
        for fn in FUNCS:
            if sing and fn != "exp" and fn not in ("unary_sq1", "unary_cos", "unary_expi", "pow2", "pow3", "pow1", "pow0"):
                continue
            for a in ALGS:
                if a in ("Eigh", "Lanczos_n", "Lanczos_n3") and not psd:
                    continue
                if tier == "quick" and a in ("Lanczos_n3", "Arnoldi_n3") and fn not in ("exp", "sqrt", "pow-1", "pow2.5"):
                    continue
                out.append([sp, fn, a])
    for fn, psd in ((("exp", True), ("sqrt", False)) if tier == "quick" else [(f, q) for f in ("exp", "log", "sqrt", "isqrt", "pow-1", "pow2.5") for q in (True, False)]):
        for a in (("omitted", ) if tier == "quick" else ("omitted", "Auto")):
            out.append(["LARGE", fn, psd, a])
    _DESC.update({"operator_specs": len(S), "functions": FUNCS, "algorithms": ALGS, "states": len(out)})
    return out


def case_signature(case):
    if case[0] == "LARGE":
        return ",".join(map(str, case))
    return f"{spec_class(case[0])},{case[1]},{case[2]}"


def prepare(tier, seed):
    """cross-check the reference construction itself against scipy's expm / logm / sqrtm once per family"""
    from scipy.linalg import expm, logm, sqrtm
    for sp in (["psd", 4, True], ["gen", 5, False], ["gen", 4, True], ["KronSum", [["psd", 2, False], ["psd", 3, True]]]):
        with warnings.catch_warnings():
            warnings.simplefilter("ignore")
            _, M = family(sp, seed)
        for f, sf in ((np.exp, expm), (np.log, logm), (np.sqrt, sqrtm)):
            F, _ = fmat(M, f)
            assert np.linalg.norm(F - sf(M)) <= 1e-8 * np.linalg.norm(F), ("reference matrix function disagrees with scipy", sp, sf.__name__)


def describe(tier, seed):
    return {
        "bound": "operators with controlled spectrum: PSD-declared Q diag(l) Q^H, general V diag(l) V^-1 (real with complex-conjugate pairs, "
                 "complex), singular PSD (exp), Diagonal real/complex for n in " + ("{1,2,3,5}" if tier == "quick" else "{1,...,6,8,12,20}")
                 + "; Identity, ScalarMul, and every structural rule (BlockDiag with multiplicities, Transpose / Adjoint of a generic operator, "
                   "KronSum, Kronecker, 2-3 factors) nested to depth 2; 1001 x 1001 identity-plus-rank-3 operators (PSD / general) beyond the automatic switch; x 18 functions (exp, log, sqrt, isqrt, 11 powers, x^2+1, cos, exp(0.5j x)) x 8 "
                   "algorithm settings x operands {1-D, 2 columns, complex 1-D, a zero column, a heterogeneous batch, float32 / complex64 and integer operands}",
        "alphabet": _DESC,
        "oracle": "f(A) x independent of the dtype an exactly representable operand arrives in (1e-10); f(A) x from the eigendecomposition of the reference (scipy cross-check in prepare()); sqrt twice = A; pow(-1) solves; integer "
                  "powers = repeated products",
    }
