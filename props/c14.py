"""C14 -- Lanczos returns an orthonormal Krylov basis and the projected tridiagonal matrix."""
import hashlib
import warnings

import numpy as np

import cola
import cola.linalg as L
from cola import ops
from cola.linalg.decompositions.lanczos import lanczos, lanczos_eigs
from mc import krylov as K
from mc import payload as P
from mc.termcheck import short

PROPERTY = "C14"
PAYLOAD_SEEDS = {"thorough": [0, 1, 2, 3]}  # the thorough tier repeats the whole enumeration for four payload seeds
ASSUMPTIONS = [
    "tolerances: orthonormality 1e-8, T = Q^H A Q and the three-term relation 1e-8 ||A||, exhausted-space Ritz values 1e-7 ||A||",
    "the Krylov-span clause is checked directly (principal angles to an independently built basis) only while that basis is well conditioned "
    "(i <= 8, simple well-separated spectrum); beyond that it follows from the checked facts: first column, tridiagonal T with positive "
    "off-diagonal, and A Q - Q T zero outside the last column",
    "exact early termination (j = d, eig(T) in spec(A)) is asserted for tol <= 1e-7; for larger tol only j <= d",
    "NumPy backend; the batched path runs through the harness vmap shim",
]


def operator(fam, n, cplx, seed):
    """(operator, dense matrix, eigenvalues, eigenvectors)"""
    if fam in ("Identity", "ScalarMul", "Diagonal"):
        if fam == "Identity":
            lam = np.ones(n)
            A = ops.Identity((n, n), np.complex128 if cplx else np.float64)
        elif fam == "ScalarMul":
            lam = -2.5 * np.ones(n)
            A = ops.ScalarMul(-2.5, (n, n), dtype=np.complex128 if cplx else np.float64)
        else:
            lam = np.linspace(-2, 3, n) if n > 1 else np.array([1.5])
            A = ops.Diagonal(lam.astype(np.complex128 if cplx else np.float64))
        return cola.SelfAdjoint(A), np.diag(lam).astype(np.complex128 if cplx else np.float64), lam, np.eye(n)
    if fam == "tiny":  # the definite family at the scale 2^-45 ~ 2.8e-14: every tolerance of the property is relative to the operator
        lam = (np.linspace(1, 10, n) if n > 1 else np.array([2.0])) * 2.0**-45
    elif fam == "huge":
        lam = (np.linspace(-4, 6, n) if n > 1 else np.array([-2.0])) * 2.0**40
    elif fam == "definite":
        lam = np.linspace(1, 10, n) if n > 1 else np.array([2.0])
    elif fam == "indefinite":
        lam = np.linspace(-4, 6, n) if n > 1 else np.array([-2.0])
    elif fam == "repeated":
        lam = np.array([1.0, 3.0, 7.0])[np.arange(n) % 3]
    elif fam == "clustered":
        lam = np.where(np.arange(n) % 2 == 0, 1.0, 5.0) + 1e-6 * np.arange(n)
    else:
        raise ValueError(fam)
    M, Q = K.hermitian(seed, n, lam, cplx, "c14" + fam)
    return cola.SelfAdjoint(ops.Dense(M)), M, lam, Q


def start(vkind, n, cplx, Qe, seed):
    g = P.rng(seed, "c14v", vkind, n, cplx)
    rnd = lambda *s: g.standard_normal(s) + (1j * g.standard_normal(s) if cplx else 0)  # noqa: E731
    if vkind == "rand":
        return rnd(n), n
    if vkind == "randtiny":
        return rnd(n) * 2.0**-45, n
    if vkind == "lowp":  # a start vector in a narrower dtype than the operator: the decomposition is computed in the promoted dtype
        return rnd(n).astype(np.complex64 if cplx else np.float32), n
    if vkind == "intvec":
        return P.ints(g, (n, ), -3, 3, nonzero=True).astype(np.int64), n
    if vkind == "cplxvec":  # a COMPLEX start vector (also on a real symmetric operator: the basis lives in the promoted, complex dtype)
        return g.standard_normal(n) + 1j * g.standard_normal(n), n
    if vkind == "batch":
        return rnd(n, 2), n
    if vkind == "batchmix":  # an eigenvector next to a random vector: the two columns exhaust their Krylov spaces at different steps
        v = np.stack([Qe[:, 0] * 2.0, rnd(n)], axis=1)
        return (v if cplx else v.real), n
    if vkind == "default":
        return None, n
    d = {"eig1": 1, "eig2": 2, "eig3": 3}[vkind]
    d = min(d, n)
    idx = np.round(np.linspace(0, n - 1, d)).astype(int)
    v = Qe[:, idx] @ (1.0 + np.arange(d))
    return (v if cplx else v.real), idx


def check_one(M, v, Qd, Td, j, m, tol, d_inv, lam, fam, bad, normA, check_first=True, exhausted_at=None):
    n = M.shape[0]
    if not (np.all(np.isfinite(Qd)) and np.all(np.isfinite(Td))):  # before any truncation: NaN in the part beyond an exhausted space counts too
        bad("nonfinite", {})
        return
    if exhausted_at is not None and exhausted_at < j:
        # batch element whose Krylov space ends before the common column count: judge its leading part, the rest must carry no weight
        if np.max(np.abs(Td[exhausted_at:, :exhausted_at]), initial=0.0) > 1e-8 * normA:
            bad("batch-element-continues-beyond-its-exhausted-space", {"coupling": float(np.max(np.abs(Td[exhausted_at:, :exhausted_at])))})
        Qd, Td, j = Qd[:, :exhausted_at], Td[:exhausted_at, :exhausted_at], exhausted_at
        m = min(m, exhausted_at)
    if Qd.shape != (n, j) or Td.shape != (j, j):
        bad("shape", {"Q": list(Qd.shape), "T": list(Td.shape)})
        return
    if j < 1 or j > min(m, n):
        bad("too-many-or-no-columns", {"columns": j, "max_iters": m})
        return
    if fam in ("definite", "indefinite", "tiny", "huge") and d_inv == n and n <= 40 and tol <= 1e-7 and j < min(m, n) and exhausted_at is None:
        # simple, well separated spectrum and a generic start vector: the only reasons to stop are the cap and n
        bad("stopped-before-the-cap-without-exhaustion", {"columns": j, "max_iters": m})
    if not (np.all(np.isfinite(Qd)) and np.all(np.isfinite(Td))):
        bad("nonfinite", {})
        return
    G = Qd.conj().T @ Qd
    if np.max(np.abs(G - np.eye(j))) > 1e-8:
        bad("Q-not-orthonormal", {"err": float(np.max(np.abs(G - np.eye(j)))), "columns": j})
        return
    if check_first and v is not None:
        q0 = v.astype(np.complex128) / np.linalg.norm(v.astype(np.complex128))
        if np.linalg.norm(Qd[:, 0] - q0) > 1e-10:
            bad("first-column-is-not-v/|v|", {"err": float(np.linalg.norm(Qd[:, 0] - q0))})
    if np.max(np.abs(Td.imag), initial=0.0) > 1e-10 * normA:
        bad("T-not-real", {"imag": float(np.max(np.abs(Td.imag)))})
    if np.max(np.abs(Td - Td.conj().T)) > 1e-12 * normA:
        bad("T-not-symmetric", {})
    if np.max(np.abs(np.triu(Td, 2)), initial=0.0) > 0 or np.max(np.abs(np.tril(Td, -2)), initial=0.0) > 0:
        bad("T-not-tridiagonal", {})
    off = np.diag(Td, -1).real
    if np.any(off < -1e-12 * normA):
        bad("T-negative-off-diagonal", {"off": off.tolist()[:8]})
    if np.max(np.abs(Td - Qd.conj().T @ M @ Qd)) > 1e-8 * normA:
        bad("T-is-not-Q^H-A-Q", {"err": float(np.max(np.abs(Td - Qd.conj().T @ M @ Qd)) / normA)})
    Rm = M @ Qd - Qd @ Td
    if j > 1 and np.max(np.abs(Rm[:, :-1])) > 1e-8 * normA:
        bad("relation-AQ-QT-nonzero-before-last-column", {"err": float(np.max(np.abs(Rm[:, :-1])) / normA)})
    # Krylov span, directly, while the reference basis is well conditioned
    if v is not None and fam in ("definite", "indefinite", "tiny", "huge") and n <= 40:
        Qref = K.krylov_basis(lambda x: M @ x, v, min(j, 8))
        for i in range(1, Qref.shape[1] + 1):
            Pq = Qref[:, :i]
            if np.linalg.norm(Qd[:, :i] - Pq @ (Pq.conj().T @ Qd[:, :i])) > 1e-6:
                bad("columns-do-not-span-the-Krylov-space", {"i": i})
                break
    # exhaustion of the Krylov space
    if d_inv < n and m >= d_inv:
        if tol <= 1e-7 and fam != "clustered":  # eigenvalue gaps of 1e-6 make "exhausted" a matter of the tolerance: only j <= d
            if j != d_inv:
                bad("no-early-termination-at-exhausted-space", {"columns": j, "invariant_dim": d_inv})
            else:
                ritz = np.linalg.eigvalsh((Td + Td.conj().T) / 2)
                dist = max(np.min(np.abs(lam - r)) for r in ritz)
                if dist > 1e-7 * normA:
                    bad("ritz-values-not-eigenvalues-at-exhaustion", {"dist": float(dist)})
        elif j > d_inv and fam != "clustered":
            bad("more-columns-than-the-invariant-subspace", {"columns": j, "invariant_dim": d_inv})
    if d_inv == n and m >= n and j == n:
        ritz = np.linalg.eigvalsh((Td + Td.conj().T) / 2)
        if np.max(np.abs(np.sort(ritz) - np.sort(lam))) > 1e-7 * normA:
            bad("full-run-does-not-reproduce-the-spectrum", {"err": float(np.max(np.abs(np.sort(ritz) - np.sort(lam))))})


def run_scale(case, seed):
    """a batch whose columns live at different scales of the operator: A = blockdiag(2^30 S1, S2) (Hermitian blocks), one generic start vector and
    one supported on the second block; the batched decomposition of that column must agree with the same vector run alone"""
    _, n1, n2, cplx, tol = case
    g = P.rng(seed, "c14scale", n1, n2, cplx)
    rnd = lambda *s: g.standard_normal(s) + (1j * g.standard_normal(s) if cplx else 0)  # noqa: E731
    herm = lambda B: (B + B.conj().T) / 2 + 3 * np.eye(B.shape[0])  # noqa: E731
    S1, S2 = herm(rnd(n1, n1)), herm(rnd(n2, n2))
    n = n1 + n2
    M = np.zeros((n, n), dtype=S1.dtype)
    M[:n1, :n1], M[n1:, n1:] = 2.0**30 * S1, S2
    v0, v1 = rnd(n), np.concatenate([np.zeros(n1), rnd(n2)])
    Vb = np.stack([v0, v1], axis=1)
    A = cola.SelfAdjoint(ops.Dense(M))
    vio, ntr = [], 0

    def bad(sym, detail, m):
        key = f"C14|batch-columns-at-different-scales|{sym}|{'c' if cplx else 'r'},tol={tol}"
        if not any(x["key"] == key for x in vio):
            vio.append({"key": key, "what": f"batched lanczos, columns at different operator scales: {sym}", "detail": {**detail, "max_iters": m, "n1": n1, "n2": n2}})

    with warnings.catch_warnings():
        warnings.simplefilter("ignore")
        from cola.backends import np_fns
        for m in range(2, n + 2):
            ntr += 1
            try:
                Qb, Tb, _ = lanczos(A, Vb.copy(), max_iters=m, tol=tol)
                Qb = np.asarray(Qb.to_dense())
                Tb = np.asarray(np_fns.vmap(Tb.__class__.to_dense)(Tb))
                Q1, T1, _ = lanczos(A, v1.copy(), max_iters=m, tol=tol)
                Q1 = np.asarray(Q1.to_dense())
            except Exception as e:
                bad(f"exc:{type(e).__name__}", {"msg": str(e)[:200]}, m)
                continue
            k = min(m, n2, Qb.shape[2])
            Qc, Tc = Qb[1][:, :k], Tb[1][:k, :k]
            if np.max(np.abs(Qc.conj().T @ Qc - np.eye(k))) > 1e-8:
                bad("Q-not-orthonormal-on-its-own-Krylov-space", {"err": float(np.max(np.abs(Qc.conj().T @ Qc - np.eye(k)))), "column_norms": np.linalg.norm(Qc, axis=0).tolist()}, m)
            elif np.max(np.abs(Qc.conj().T @ M @ Qc - Tc)) > 1e-8 * np.linalg.norm(S2, 2):
                bad("T-is-not-Q^H-A-Q-at-the-column-scale", {"err": float(np.max(np.abs(Qc.conj().T @ M @ Qc - Tc)))}, m)
            kk = min(k, Q1.shape[1])
            if kk < min(m, n2) and tol <= 1e-7:
                bad("column-alone-stops-before-its-Krylov-space-is-exhausted", {"columns": int(Q1.shape[1])}, m)
            if np.max(np.abs(Q1[:, :kk] - Qc[:, :kk])) > 1e-7:
                bad("batched-column-differs-from-the-same-vector-alone", {"err": float(np.max(np.abs(Q1[:, :kk] - Qc[:, :kk])))}, m)
    return {"states": n, "transitions": ntr * 3, "outcome": f"scale:{len(vio)}", "violations": vio}


def run_case(case, seed):
    if case[0] == "SCALE":
        return run_scale(case, seed)
    fam, n, cplx, vkind, tol, entry, ms = case
    vio, ntr = [], 0
    h = hashlib.sha256()
    base = f"{fam},{'c' if cplx else 'r'},{vkind},tol={tol},{entry}"
    with warnings.catch_warnings():
        warnings.simplefilter("ignore")
        A, M, lam, Qe = operator(fam, n, cplx, seed)
        v, d_inv = start(vkind, n, cplx, Qe, seed)
        if not isinstance(d_inv, int):
            # dimension of the Krylov space = number of DISTINCT eigenvalues among the chosen eigenvectors
            d_inv = len(set(np.round(lam[d_inv] / np.max(np.abs(lam)), 9)))
        if fam in ("Identity", "ScalarMul"):
            d_inv = 1
        elif fam == "repeated" and vkind in ("rand", "batch", "default"):
            d_inv = min(3, n)
        normA = max(float(np.linalg.norm(M, 2)), 1e-300)
        for m in ms:
            ntr += 1
            rel = "m<n" if m < n else ("m=n" if m == n else "m>n")

            def bad(check, detail):
                key = f"C14|{check}|{base}|{rel}"
                if not any(x["key"] == key for x in vio):
                    vio.append({"key": key, "what": f"{check}: {base} n={n} max_iters={m}", "detail": {**detail, "n": n, "max_iters": m, "case": case[:6]}})

            v_in = None if v is None else v.copy()
            try:
                if entry == "lanczos":
                    Q, T, info = lanczos(A, v_in, max_iters=m, tol=tol)
                elif entry == "Lanczos()":
                    Q, T, info = L.Lanczos(start_vector=v_in, max_iters=m, tol=tol)(A)
                else:
                    vals, V, info = lanczos_eigs(A, v_in, max_iters=m, tol=tol)
            except Exception as e:
                bad(f"exc:{type(e).__name__}", {"msg": str(e)[:300]})
                continue
            if v is not None and not np.array_equal(v, v_in):
                bad("start-vector-mutated", {})
            if entry == "lanczos_eigs":
                vals = np.asarray(vals)
                Vd = np.asarray(V.to_dense())
                if vals.ndim != 1 or Vd.shape != (n, vals.shape[0]) or not (1 <= vals.shape[0] <= min(m, n)):
                    bad("eigs-shape", {"values": list(vals.shape), "vectors": list(Vd.shape)})
                    continue
                if not (np.all(np.isfinite(vals)) and np.all(np.isfinite(Vd))):  # NaN compares False with every threshold below
                    bad("eigs-nonfinite", {})
                    continue
                if np.any(np.diff(vals.real) < -1e-10 * normA):
                    bad("ritz-values-not-ascending", {"values": short(vals)})
                if np.max(np.abs(Vd.conj().T @ Vd - np.eye(vals.shape[0]))) > 1e-8:
                    bad("ritz-vectors-not-orthonormal", {})
                res = np.linalg.norm(M @ Vd - Vd * vals[None, :], axis=0)
                j = vals.shape[0]
                exhausted = (j == n) or (d_inv < n and m >= d_inv and tol <= 1e-7 and fam != "clustered")
                if exhausted and np.max(res) > 1e-7 * normA:
                    bad("ritz-pairs-not-eigenpairs-at-exhaustion", {"residual": float(np.max(res) / normA)})
                # Rayleigh-Ritz consistency: V^H A V = diag(values)
                if np.max(np.abs(Vd.conj().T @ M @ Vd - np.diag(vals))) > 1e-8 * normA:
                    bad("ritz-values-are-not-rayleigh-quotients", {})
                h.update(np.round(vals.real / normA, 7).tobytes())
                continue
            if vkind in ("batch", "batchmix"):
                Qb = np.asarray(Q.to_dense())
                from cola.backends import np_fns
                Tb = np.asarray(np_fns.vmap(T.__class__.to_dense)(T))
                if Qb.ndim != 3 or Qb.shape[0] != 2:
                    bad("batch-shape", {"Q": list(Qb.shape)})
                    continue
                for c in range(2):
                    ex_at = 1 if (vkind == "batchmix" and c == 0) else None
                    check_one(M, v[:, c], Qb[c], Tb[c], Qb.shape[2], m, tol, n if ex_at is None else d_inv, lam, fam, bad, normA, exhausted_at=ex_at)
                h.update(np.round(np.abs(Tb) / normA, 6).tobytes())
                continue
            Qd, Td = np.asarray(Q.to_dense()), np.asarray(T.to_dense())
            check_one(M, v, Qd, Td, Qd.shape[1] if Qd.ndim == 2 else -1, m, tol, d_inv, lam, fam, bad, normA)
            h.update(np.round(np.abs(Td) / normA, 6).tobytes())
    return {"states": len(ms), "transitions": ntr * 10, "outcome": h.hexdigest()[:12], "violations": vio}


_DESC = {}


def cases(tier, seed):
    out = []
    small = [1, 2, 3, 4, 5, 6]
    big = [12, 40] if tier == "quick" else [12, 40, 300]
    for fam in ("definite", "indefinite", "repeated", "clustered", "tiny", "huge", "Identity", "ScalarMul", "Diagonal"):
        for n in small + big:
            if fam in ("Identity", "ScalarMul", "Diagonal") and n > 12:
                continue
            ms = list(range(1, n + 4)) if n <= 6 else sorted({1, 2, 5, n - 1, n, n + 5, 1000})
            for cplx in (False, True):
                for vk in ("rand", "eig1", "eig2", "eig3", "batch", "batchmix", "default", "randtiny", "lowp", "intvec", "cplxvec"):
                    if (fam in ("tiny", "huge") and vk not in ("rand", "eig2", "batch", "default")) or (vk in ("randtiny", "lowp", "intvec", "cplxvec") and fam not in ("definite", "indefinite")):
                        continue
                    if fam in ("Identity", "ScalarMul") and vk in ("eig2", "eig3", "batchmix"):
                        continue
                    if vk == "batchmix" and (n < 3 or fam not in ("definite", "indefinite", "Diagonal")):  # Diagonal: the eigenvector column is EXACT (e_0)
                        continue
                    for tol in (1e-12, 1e-7, 1e-3):
                        for entry in ("lanczos", "lanczos_eigs", "Lanczos()"):
                            if vk in ("batch", "batchmix") and entry != "lanczos":
                                continue
                            if tier == "quick" and (n > 12 or (n > 6 and (tol == 1e-3 or entry == "Lanczos()"))) and not (vk in ("rand", "eig2", "batchmix") and tol == 1e-12 and entry == "lanczos"):
                                continue
                            if n == 300 and not (entry == "lanczos" and vk in ("rand", "eig3") and tol != 1e-3):
                                continue
                            out.append([fam, n, cplx, vk, tol, entry, ms])
    _DESC.update({"configurations": len(out), "runs": sum(len(c[-1]) for c in out), "sizes": small + big})
    for n1, n2 in ((3, 3), (4, 2), (2, 5)):
        for cplx in (False, True):
            for tol in (1e-12, 1e-7, 1e-3):
                out.append(["SCALE", n1, n2, cplx, tol])
    # tol = 0: the exhaustion test never fires, so the cap min(max_iters, n) is the only thing that ends the run (generic start vectors on
    # simple spectra: the Krylov space is exhausted exactly at n)
    for fam in ("definite", "indefinite"):
        for n in (1, 2, 3, 5, 6):
            for cplx in (False, True):
                for vk in ("rand", "batch"):
                    for entry in (("lanczos", "lanczos_eigs", "Lanczos()") if vk == "rand" else ("lanczos", )):
                        out.append([fam, n, cplx, vk, 0.0, entry, list(range(1, n + 4))])
    return out


def case_signature(case):
    return ",".join(map(str, case[:6]))


def describe(tier, seed):
    return {
        "bound": "Hermitian operators {definite, indefinite, repeated (3 distinct values), clustered (gap 1e-6), definite at scale 2^-45, indefinite at scale 2^40} real / complex and Identity / ScalarMul / "
                 "Diagonal operators, n in " + str(_DESC.get("sizes")) + "; start vectors {random, random at scale 2^-45, float32 / complex64, integer, complex on a real operator, eigenvector, sum of 2 / 3 eigenvectors, 2-column "
                 "batch, default keyed}; every max_iters in 1..n+3 (n<=6) / {1,2,5,n-1,n,n+5,1000}; tol in {1e-12, 1e-7, 1e-3} (and 0 for generic start vectors: only the cap ends the run); entry points lanczos, "
                 "lanczos_eigs, Lanczos()(A)",
        "alphabet": _DESC,
        "oracle": "columns <= min(max_iters, n); Q^H Q = I; first column v/|v|; T real symmetric tridiagonal with off-diagonal >= 0 and equal to Q^H A Q; "
                  "A Q - Q T zero outside the last column; Krylov span (principal angles); early termination at an exhausted space with exact Ritz "
                  "values; ascending Ritz pairs from lanczos_eigs",
    }
