"""C01 -- an operator acts on arrays exactly as the matrix it represents (DESIGN.md section 3, C01)."""
import hashlib
import warnings

import numpy as np

import cola
from mc import alphabet as AB
from mc import payload as P
from mc.refmodel import Inadmissible, is_exact, low_precision, promote, ref, shape_of, size
from mc.termcheck import TermChecker, compare, short, tol_for
from mc.terms import build, to_source

PROPERTY = "C01"
ASSUMPTIONS = [
    "NumPy backend only; harness shim provides vmap/linear_transpose/sparse_csr/to_np (and finite-difference "
    "derivatives for Jacobian/Hessian with quadratic f)",
    "payloads are small integers / Gaussian integers / dyadic scalars: values outside that alphabet (overflow, NaN) "
    "are not explored",
    "reference interpreter mc/refmodel.py is the specification of the represented matrix",
]

# operand menu: (tag, dtype token, columns or None for 1-D, strided?)
OPERANDS = [("x1f8", "f8", None, False), ("X1f8", "f8", 1, False), ("X2f8", "f8", 2, False), ("x1f4", "f4", None, False),
            ("x1c16", "c16", None, False), ("X2c16", "c16", 2, False), ("x1f8s", "f8", None, True)]


def make_operand(seed, n, tag, tok, cols, strided):
    if strided:
        base = P.operand(seed, 2 * n, None, tok, tag)
        return base[::2]
    return P.operand(seed, n, cols, tok, tag)


def observe(term, seed):
    fails = {}
    n = 0
    h = hashlib.sha256()
    try:
        R = ref(term, seed)
    except Inadmissible:
        return {}, 0, "inadmissible"
    lowp = low_precision(term)

    def tol(dtype, operand_tok="f8"):
        return 2e-4 if (lowp or operand_tok in ("f4", "c8")) else tol_for(dtype)

    with warnings.catch_warnings():
        warnings.simplefilter("ignore")
        try:
            A = build(term, seed)
        except Exception as e:
            return {"build": (f"exc:{type(e).__name__}", {"msg": str(e)[:300], "src": to_source(term)})}, 1, "build-exc"
        n += 1
        if tuple(A.shape) != R.shape:
            fails["shape"] = ("shape", {"got": list(A.shape), "want": list(R.shape), "src": to_source(term)})
        n += 1
        try:
            adt = np.dtype(A.dtype)
        except Exception:
            adt = None
        if adt not in R.dtypes:
            fails["dtype"] = ("dtype", {"got": str(A.dtype), "want": sorted(map(str, R.dtypes)), "src": to_source(term)})
        # densification
        n += 1
        try:
            Dn = A.to_dense()
            sym = compare(Dn, R.mat, is_exact(term, R.mat, getattr(Dn, "dtype", None)), tol(getattr(Dn, "dtype", np.float64)))
            if sym is None and np.dtype(Dn.dtype) not in R.dtypes:
                sym = "dtype"
            if sym:
                fails["to_dense"] = (sym, {"got": short(Dn), "want": short(R.mat), "want_dtypes": sorted(map(str, R.dtypes)),
                                           "src": to_source(term)})
            h.update(np.ascontiguousarray(np.asarray(Dn)).tobytes())
        except Exception as e:
            fails["to_dense"] = (f"exc:{type(e).__name__}", {"msg": str(e)[:300], "src": to_source(term)})
        if size(term) == 0:
            n += 1
            try:
                D2 = cola.densify(A)
                sym = compare(D2, R.mat, is_exact(term, R.mat, getattr(D2, "dtype", None)), tol(getattr(D2, "dtype", np.float64)))
                if sym:
                    fails["densify"] = (sym, {"got": short(D2), "src": to_source(term)})
            except Exception as e:
                fails["densify"] = (f"exc:{type(e).__name__}", {"msg": str(e)[:300]})
        if "shape" in fails:
            return fails, n, h.hexdigest()[:16]
        for tag, tok, cols, strided in OPERANDS:
            n += 1
            x = make_operand(seed, R.shape[1], tag, tok, cols, strided)
            x0 = x.copy()
            want = R.mat @ x.astype(np.complex128)
            want_dts = {promote(d, x.dtype) for d in R.dtypes}
            try:
                y = A @ x
            except Exception as e:
                fails[f"matmul:{tag}"] = (f"exc:{type(e).__name__}", {"msg": str(e)[:300], "src": to_source(term)})
                continue
            y = np.asarray(y)
            sym = compare(y, want, is_exact(term, want, y.dtype) and is_exact(term, R.mat, y.dtype), tol(y.dtype, tok))
            if sym is None and np.dtype(y.dtype) not in want_dts:
                sym = "dtype"
            if sym:
                fails[f"matmul:{tag}"] = (sym, {"got": short(y), "want": short(want), "want_dtypes": sorted(map(str, want_dts)),
                                                "src": to_source(term)})
            if not np.array_equal(x, x0):
                fails[f"matmul:{tag}:operand-mutated"] = ("mutation", {"src": to_source(term)})
            h.update(np.ascontiguousarray(y).tobytes())
    return fails, n, h.hexdigest()[:16]


CHECKER = TermChecker(PROPERTY, observe)
_DESC = {}


def _square(t):
    try:
        s = shape_of(t)
    except Inadmissible:
        return False
    return s[0] == s[1]


UN_R = {"T": AB.UNARY["T"], "H": AB.UNARY["H"], "lmul": lambda a: [["lmul", "cj", a]],
        "slice": lambda a: [["slice", a, rs, cs] for rs, cs in AB.SLICE_SPECS[2:4] + AB.SLICE_SPECS[6:7]]}
BI_R = {"matmul": AB.BINARY["matmul"], "add": AB.BINARY["add"], "kron": AB.BINARY["kron"],
        "BlockDiag": lambda a, b: [["BlockDiag", [a, b], [2, 1]]], "Concat": AB.BINARY["Concat"]}


def gen_terms(tier, with_deriv=True):
    W = AB.with_shapes
    full = W(AB.leaves_full() + (AB.leaves_deriv() if (tier == "thorough" and with_deriv) else []))
    mid = W(AB.leaves_mid())
    small = W(AB.leaves_small())
    prim = small[:10]
    info = {}
    partner_keys = {repr(t) for t, _ in (prim if tier == "quick" else mid)}
    f1 = AB.grow([full], partner=lambda a: repr(a) in partner_keys, ternary=AB.TERNARY, ternary_pool=prim[:8])
    out = full + f1
    info["L_full"] = {"leaves": len(full), "size1": len(f1),
                      "binary_partner": "L_small primitives" if tier == "quick" else "L_mid"}
    s1 = AB.grow([small], ternary=AB.TERNARY, ternary_pool=prim)
    s1r = AB.grow([small], unary=UN_R, binary=BI_R)
    prim_keys = {repr(t) for t, _ in prim[:6]}
    s2 = AB.grow([small, s1r], unary=UN_R, binary=BI_R, max_dim=24,
                 partner=(lambda a: repr(a) in prim_keys) if tier == "quick" else None)
    out += small + s1 + s2
    info["L_small"] = {"leaves": len(small), "size1": len(s1), "size1_reduced": len(s1r), "size2_reduced_combinators": len(s2),
                       "size2_binary_partner": "first 6 primitives" if tier == "quick" else "all of L_small"}
    if tier == "thorough":
        m1 = AB.grow([mid])
        m1r = AB.grow([mid], unary=UN_R, binary=BI_R)
        m2 = AB.grow([mid, m1r], unary=UN_R, binary=BI_R, max_dim=30)
        out += m1 + m2
        info["L_mid"] = {"leaves": len(mid), "size1": len(m1), "size2_reduced_combinators": len(m2)}
        cap = 500000
        s3 = AB.grow([small, s1r, s2], unary=UN_R, binary={k: BI_R[k] for k in ("matmul", "add", "kron")}, max_dim=16, cap=cap)
        info["L_small"]["size3"] = len(s3)
        info["L_small"]["size3_cap_hit"] = len(s3) >= cap
        out += s3
    seen, uniq = set(), []
    for t, _ in out:
        k = repr(t)
        if k not in seen:
            seen.add(k)
            uniq.append(t)
    info["total_terms"] = len(uniq)
    return uniq, info


def cases(tier, seed):
    terms, info = gen_terms(tier)
    _DESC.update(info)
    return terms


def run_case(term, seed):
    return CHECKER.run(term, seed)


def case_signature(case):
    from mc.refmodel import signature
    return signature(case)


def describe(tier, seed):
    return {
        "bound": "term size (number of combinator nodes): <=1 over L_full, <=2 over L_small"
                 + (", <=2 over L_mid, <=3 over L_small (reduced combinator set)" if tier == "thorough" else ""),
        "alphabet": _DESC,
        "operands": [o[0] for o in OPERANDS],
        "observations_per_state": "shape, dtype, to_dense (value+dtype), densify (leaves), A@x for 7 operands (value, shape, "
                                  "dtype, operand not mutated)",
        "oracle": "bit-exact equality with the reference interpreter in the exact tier; 1e-9 (f64) / 2e-4 (f32) relative otherwise",
        "exhaustive": not _DESC.get("L_small", {}).get("size3_cap_hit", False),
    }
