"""C20 -- indexing and slicing an operator match indexing the represented matrix."""
import hashlib
import itertools
import warnings

import numpy as np

from cola import ops
from mc import alphabet as AB
from mc import payload as P
from mc.refmodel import coarse_signature, is_exact, low_precision, ref, shape_class, shape_of
from mc.termcheck import compare, short, tol_for
from mc.terms import build, to_source

PROPERTY = "C20"
PAYLOAD_SEEDS = {"thorough": [0, 1, 2, 3]}  # the thorough tier repeats the whole enumeration for four payload seeds
ASSUMPTIONS = [
    "index arrays on both axes: cola documents A[r, c] == A[r, :][:, c] (outer indexing); a returned operator is compared "
    "with D[np.ix_(r, c)], a returned vector with D[r, c]; either is accepted",
    "out-of-range indices are outside the quantifier and not judged; only Python ints are used as scalar indices",
    "NumPy backend only; harness shim as in C01",
]


def operators(tier):
    D = AB.D
    L = [
        D(3, 3), D(3, 4), D(4, 3), D(1, 4), D(3, 4, "c16"), D(4, 3, "f4"), D(4, 1),
        ["Tri", 3, "f8", True, "g"], ["Tri", 3, "c16", False, "g"],
        ["Sparse", [3, 4], "f8", "g"], ["Sparse", [4, 3], "c16", "g"],
        ["Scalar", "m3", 3, "f8"], ["Scalar", "cj", 3, "c16"], ["Identity", 3, "f8"], ["Identity", 4, "c16"],
        ["Diag", 3, "f8", "mixed"], ["Diag", 4, "c16", "mixed"], ["Tridiag", 4, "f8", "gen"], ["Tridiag", 3, "c16", "gen"],
        ["Perm", 4, "cyc", None], ["Perm", 3, "cyc", "f8"], ["House", 3, "c16", "g"], ["House", 4, "f8", "nonunit"],
        ["Kernel", [3, 4], "f8", "lin", 1, 2], ["Kernel", [4, 3], "f8", "sq", 2, 1], ["FFT", 4, "c16"], ["FFT", 3, "c16"],
        ["Generic", [3, 4], "f8", "g"], ["Generic", [4, 3], "c16", "g"], ["Generic", [3, 3], "f8", "g"],
        ["NoDisp", D(3, 4, "c16")], ["Ann", "PSD", D(3, 3, "f8", "spd")], ["Ann", "SelfAdjoint", D(3, 3, "c16", "sym")],
        ["Ann", "SelfAdjoint", ["Generic", [3, 3], "c16", "sym"]],
    ]
    C = [
        ["matmul", D(3, 3), D(3, 4, "c16")], ["matmul", ["Generic", [4, 3], "c16", "g"], ["Diag", 3, "f8", "mixed"]],
        ["add", D(3, 4), ["Sparse", [3, 4], "f8", "g"]], ["sub", ["Tridiag", 4, "f8", "gen"], ["Perm", 4, "cyc", None]],
        ["Kronecker", [D(2, 2), ["Diag", 2, "c16", "mixed"]]], ["kron", D(1, 2), D(3, 2, "c16")], ["kron", D(2, 1), D(2, 3)],
        ["KronSum", [D(2, 2), ["Tridiag", 2, "c16", "gen"]]],
        ["BlockDiag", [D(1, 2), ["Identity", 2, "f8"]], [1, 1]], ["BlockDiag", [D(2, 1, "c16")], [2]],
        ["BlockDiag", [D(1, 1), D(1, 2)], [2, 1]],
        ["Concat", [D(2, 3), D(1, 3, "c16")], 0], ["Concat", [D(3, 2), ["Generic", [3, 2], "c16", "g"]], 1],
        ["T", ["Generic", [4, 3], "c16", "g"]], ["H", ["Generic", [4, 3], "c16", "g"]], ["H", ["Tridiag", 3, "c16", "gen"]],
        ["T", ["Sparse", [3, 4], "f8", "g"]], ["lmul", "cj", D(3, 4)], ["neg", ["Perm", 3, "cyc", "f8"]],
        ["slice", D(4, 4, "c16"), ["s", 1, None, None], ["s", None, None, None]],
        ["slice", ["Generic", [4, 4], "f8", "g"], ["i", [3, 0, 1]], ["s", None, None, -1]],
    ]
    if tier == "thorough":
        C += [["Jac", [3, 4]], ["Hess", 3], ["matmul", ["Tri", 3, "f8", True, "g"], ["T", ["Generic", [4, 3], "c16", "g"]]],
              ["add", ["Ann", "PSD", D(3, 3, "f8", "spd")], ["Scalar", "two", 3, "f8"]],
              ["Kronecker", [D(1, 2), D(2, 1), D(2, 2, "c16")]], ["kron", ["Identity", 2, "f8"], D(2, 2)]]
    return L + C


def slice_menu(n, tier):
    starts = [None, 0, 1, 2, -1, -2, n + 1]
    steps = [None, 1, 2, -1, -2]
    full = [["s", a, b, c] for a in starts for b in starts for c in steps]
    red = [["s", None, None, None], ["s", 1, None, None], ["s", None, -1, None], ["s", None, None, 2], ["s", None, None, -1],
           ["s", -2, None, None], ["s", 0, 2, None], ["s", 2, 0, -1], ["s", 1, 1, None], ["s", None, None, -2], ["s", -1, None, -1],
           ["s", n + 1, None, None]]
    return full, red


def array_menu(n):
    cand = [[0], [n - 1, 0], list(range(min(n, 3))), [-1, 0], [n - 1, n - 1], [min(2, n - 1), 0, min(1, n - 1)], [0, 0, n - 1]]
    out = []
    for c in cand:
        if c not in out:
            out.append(c)
    return [["i", c] for c in out]


def expressions(shape, tier):
    r, c = shape
    E = []
    for i in range(-r, r):
        for j in range(-c, c):
            E.append(["II", i, j])
        E.append(["I", i])
    fr, rr = slice_menu(r, tier)
    fc, rc = slice_menu(c, tier)
    ar, ac = array_menu(r), array_menu(c)
    col_specs = (fc if tier == "thorough" else rc) + ac
    row_specs = (fr if tier == "thorough" else rr) + ar
    for i in range(-r, r):
        for s in (col_specs if tier == "thorough" else rc[:6] + ac[:3]):
            E.append(["IS", i, s])
    for j in range(-c, c):
        for s in (row_specs if tier == "thorough" else rr[:6] + ar[:3]):
            E.append(["SI", s, j])
    for s in (fr if tier == "thorough" else fr[::7]) + ar:
        E.append(["S", s])  # A[s]
        E.append(["SS", s, ["s", None, None, None]])
    for s in (fc if tier == "thorough" else fc[::7]) + ac:
        E.append(["SS", ["s", None, None, None], s])
    for a in rr + ar:
        for b in rc + ac:
            E.append(["SS", a, b])
    lr = [[0, min(1, r - 1)], [0], [-1, 0, min(1, r - 1)], [r - 1, r - 1]]
    lc = [[min(1, c - 1), 0], [0], [0, -1, min(1, c - 1)], [0, c - 1]]
    for a, b in zip(lr, lc):
        E.append(["LL", a, b])
    # NumPy integer scalars (what iterating over an index array yields) and a single list of rows
    for i in sorted({-r, -1, 0, r - 1}):
        E.append(["NI", i])
        for j in sorted({-c, 0, c - 1}):
            E.append(["NII", i, j])
    for j in sorted({-c, -1, 0, c - 1}):
        E.append(["SNI", j])
    for a in lr:
        E.append(["L", a])
    seen, out = set(), []
    for e in E:
        k = repr(e)
        if k not in seen:
            seen.add(k)
            out.append(e)
    return out


def _obj(spec):
    if spec[0] == "s":
        return slice(spec[1], spec[2], spec[3])
    return np.array(spec[1], dtype=np.int64)


def _cls(spec, n):
    if spec[0] == "i":
        return "arr" + ("-rep" if len(set(x % n for x in spec[1])) < len(spec[1]) else "")
    ln = len(range(*slice(spec[1], spec[2], spec[3]).indices(n)))
    st = spec[3]
    return "slice" + ("-empty" if ln == 0 else "") + ("-neg" if (st or 1) < 0 else "")


def expr_class(e, shape):
    r, c = shape
    k = e[0]
    if k == "II":
        return "A[i,j]"
    if k == "I":
        return "A[i]"
    if k == "IS":
        return f"A[i,{_cls(e[2], c)}]"
    if k == "SI":
        return f"A[{_cls(e[1], r)},j]"
    if k == "S":
        return f"A[{_cls(e[1], r)}]"
    if k == "SS":
        return f"A[{_cls(e[1], r)},{_cls(e[2], c)}]"
    if k in ("NI", "NII", "SNI"):
        return {"NI": "A[np.int64(i)]", "NII": "A[np.int64(i),np.int64(j)]", "SNI": "A[:,np.int64(j)]"}[k]
    if k == "L":
        return "A[list]"
    return "A[list,list]"


def expr_src(e):
    k = e[0]
    if k == "II":
        return f"[{e[1]}, {e[2]}]"
    if k == "I":
        return f"[{e[1]}]"
    if k == "IS":
        return f"[{e[1]}, {_obj(e[2])!r}]"
    if k == "SI":
        return f"[{_obj(e[1])!r}, {e[2]}]"
    if k == "S":
        return f"[{_obj(e[1])!r}]"
    if k == "SS":
        return f"[{_obj(e[1])!r}, {_obj(e[2])!r}]"
    if k == "NI":
        return f"[np.int64({e[1]})]"
    if k == "NII":
        return f"[np.int64({e[1]}), np.int64({e[2]})]"
    if k == "SNI":
        return f"[:, np.int64({e[1]})]"
    if k == "L":
        return f"[{e[1]}]"
    return f"[{e[1]}, {e[2]}]"


class _ListIndexed:
    """A[np.array(rows)] is replaced by A[list(rows)] for the "L" expressions; everything else is checked like the array form"""
    def __init__(self, A):
        self.A = A

    def __getitem__(self, ids):
        return self.A[[int(x) for x in ids]] if isinstance(ids, np.ndarray) else self.A[ids]


def check_expr(A, R, term, e, seed, exact_ok, lowp):
    """returns (symptom or None, detail, transitions, digest-bytes)"""
    D = R.mat
    k = e[0]
    tolv = 2e-4 if lowp else 1e-9
    if k == "L":  # a single list selects rows, as an index array does: the result is a sub-operator
        e = ["S", ["i", list(e[1])]]
        k = "S"
        A = _ListIndexed(A)
    if k in ("II", "I", "IS", "SI", "LL", "NI", "NII", "SNI"):
        if k == "NI":
            got, want = A[np.int64(e[1])], D[e[1]]
        elif k == "NII":
            got, want = A[np.int64(e[1]), np.int64(e[2])], D[e[1], e[2]]
        elif k == "SNI":
            got, want = A[:, np.int64(e[1])], D[:, e[1]]
        elif k == "II":
            got, want = A[e[1], e[2]], D[e[1], e[2]]
        elif k == "I":
            got, want = A[e[1]], D[e[1]]
        elif k == "IS":
            got, want = A[e[1], _obj(e[2])], D[e[1], _obj(e[2])]
        elif k == "SI":
            got, want = A[_obj(e[1]), e[2]], D[_obj(e[1]), e[2]]
        else:
            got, want = A[list(e[1]), list(e[2])], D[list(e[1]), list(e[2])]
        got = np.asarray(got)
        want = np.asarray(want)
        sym = compare(got, want, exact_ok and is_exact(term, want, got.dtype), tolv)
        return sym, {"got": short(got), "want": short(want)}, 1, np.ascontiguousarray(got).tobytes()
    if k == "S":
        B = A[_obj(e[1])]
        want = D[_obj(e[1])]
        both_arrays = False
    else:
        B = A[_obj(e[1]), _obj(e[2])]
        both_arrays = e[1][0] == "i" and e[2][0] == "i"
        want = D[_obj(e[1]), :][:, _obj(e[2])]
    n = 1
    if not isinstance(B, ops.LinearOperator):
        B = np.asarray(B)
        alt = D[_obj(e[1]), _obj(e[2])] if both_arrays and len(e[1][1]) == len(e[2][1]) else want
        sym = compare(B, alt, exact_ok, tolv)
        return sym, {"got": short(B), "want": short(alt)}, n, np.ascontiguousarray(B).tobytes()
    if tuple(B.shape) != want.shape:
        return "shape", {"got": list(B.shape), "want": list(want.shape)}, n, b""
    if np.dtype(B.dtype) not in R.dtypes:
        return "dtype", {"got": str(B.dtype), "want": sorted(map(str, R.dtypes))}, n, b""
    Dn = np.asarray(B.to_dense())
    n += 1
    sym = compare(Dn, want, exact_ok and is_exact(term, want, Dn.dtype), tolv)
    if sym:
        return "to_dense:" + sym, {"got": short(Dn), "want": short(want)}, n, b""
    hb = np.ascontiguousarray(Dn).tobytes()
    if want.shape[1] > 0:
        for tag, tok, cols in (("X2f8", "f8", 2), ("x1c16", "c16", None)):
            n += 1
            x = P.operand(seed, want.shape[1], cols, tok, "c20" + tag)
            y = np.asarray(B @ x)
            w = want @ x
            sym = compare(y, w, exact_ok and is_exact(term, w, y.dtype) and is_exact(term, want, y.dtype), tolv)
            if sym:
                return f"matmul:{tag}:{sym}", {"got": short(y), "want": short(w)}, n, hb
    if want.shape[0] > 0:
        n += 1
        yl = P.operand(seed, want.shape[0], None, "c16", "c20l")
        y = np.asarray(yl @ B)
        w = yl @ want
        sym = compare(y, w, exact_ok and is_exact(term, w, y.dtype) and is_exact(term, want, y.dtype), tolv)
        if sym:
            return f"rmatmul:{sym}", {"got": short(y), "want": short(w)}, n, hb
    return None, None, n, hb


def run_case(case, seed):
    term, exprs = case
    R = ref(term, seed)
    lowp = low_precision(term)
    exact_ok = is_exact(term, R.mat)
    vio = []
    n = 0
    h = hashlib.sha256()
    opsig = f"{coarse_signature(term)},{shape_class(R.shape)}"
    seen = set()
    with warnings.catch_warnings():
        warnings.simplefilter("ignore")
        A = build(term, seed)
        for e in exprs:
            try:
                sym, detail, k, hb = check_expr(A, R, term, e, seed, exact_ok, lowp)
            except Exception as ex:
                sym, detail, k, hb = f"exc:{type(ex).__name__}", {"msg": str(ex)[:200]}, 1, b""
            n += k
            h.update(hb)
            if sym:
                key = f"{PROPERTY}|{expr_class(e, R.shape)}|{sym}|{opsig}"
                if key not in seen:
                    seen.add(key)
                    vio.append({"key": key, "what": f"{expr_class(e, R.shape)} {sym} on {opsig}",
                                "detail": {**(detail or {}), "src": to_source(term) + expr_src(e), "expr": e}})
    return {"states": len(exprs), "transitions": n, "outcome": h.hexdigest()[:16], "violations": vio}


_DESC = {}


def cases(tier, seed):
    out = []
    tot = 0
    opl = operators(tier)
    for t in opl:
        E = expressions(shape_of(t), tier)
        tot += len(E)
        chunk = 60
        for i in range(0, len(E), chunk):
            out.append([t, E[i:i + chunk]])
    _DESC.update({"operators": len(opl), "index_expressions_total": tot})
    return out


def case_signature(case):
    return coarse_signature(case[0])


def describe(tier, seed):
    return {
        "bound": "one operator of every kind and depth-1 nestings (shapes 3x3, 3x4, 4x3, 1x4, 4x1, 4x4, 2x6 ...) x every index expression: "
                 "all int pairs / rows in [-n, n); slices with start/stop in {None,0,1,2,-1,-2,n+1} x step in {None,1,2,-1,-2} "
                 + ("(all 245 per axis, all int x slice)" if tier == "thorough" else "(every 7th of the 245 per axis plus a 12x12 pair grid)")
                 + "; 7 index arrays per axis (unsorted, negative, repeated) on either / both axes and mixed with slices; 4 list pairs",
        "alphabet": _DESC,
        "oracle": "same indexing expression on the reference matrix: scalars/vectors exactly; sub-operators through shape, dtype, "
                  "to_dense, B@X (real), B@x (complex), y@B",
    }
