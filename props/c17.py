"""C17 -- randomised routines are deterministic in their key, do not touch numpy's global RNG, and Hutchinson is unbiased.

(a) history exploration: every sequence of <= 2 (quick) / <= 3 (thorough) events from {cola randomised call with key in {None, 0, 7}} u
    {user seeds / draws from numpy.random}; invariants after every step.
(b) exact expectation of the Hutchinson estimator by enumerating the whole Rademacher probe cube through a seam on np_fns.randn.
(c) iteration cap."""
import hashlib
import itertools
import logging
import warnings

import numpy as np

import cola
import cola.linalg as L
from cola import ops
from cola.backends import np_fns
from cola.linalg.decompositions.arnoldi import arnoldi
from cola.linalg.decompositions.lanczos import lanczos
from cola.linalg.eig.lobpcg import LOBPCG, lobpcg
from cola.linalg.eig.power_iteration import power_iteration
from cola.linalg.preconditioning.preconditioners import NystromPrecond
from cola.linalg.tbd.randomized_svd import randomized_svd
from cola.linalg.tbd.slq import stochastic_lanczos_quad
from cola.linalg.trace.diagonal_estimation import hutchinson_diag_estimate
from mc import payload as P

PROPERTY = "C17"
ASSUMPTIONS = [
    "the statistical clause (\"within the sampling error implied by its own variance\") is decided through its exact cause: the estimator is "
    "bilinear in the probe, so equality of its average over the full Rademacher cube with the true diagonal proves unbiasedness for every "
    "zero-mean unit-covariance probe distribution; the normal branch is checked against the same bilinear formula on injected probes",
    "histories are replayed in-process from numpy.random.seed(VERIF_SEED); cola keeps no other global random state",
    "NumPy backend only",
]
KEYS = [None, 0, 7]


def _ops(seed):
    g = P.rng(seed, "c17ops")
    B = P.ints(g, (6, 6), -1, 1)
    S = (B @ B.T + 6 * np.eye(6))
    G = P.ints(g, (6, 6), -2, 2) + 5 * np.eye(6)
    B64 = P.ints(g, (64, 64), -1, 1)
    return {"S": S, "G": G, "S64": B64 @ B64.T + 64 * np.eye(64)}


def digest(x):
    h = hashlib.sha256()

    def rec(o):
        if isinstance(o, ops.LinearOperator):
            rec(np.asarray(o.to_dense()))
        elif isinstance(o, (tuple, list)):
            for y in o:
                rec(y)
        elif isinstance(o, dict):
            pass
        elif o is None:
            h.update(b"None")
        else:
            a = np.ascontiguousarray(np.asarray(o))
            h.update(str(a.dtype).encode() + str(a.shape).encode() + a.tobytes())

    rec(x)
    return h.hexdigest()[:16]


def events(seed):
    mats = _ops(seed)
    S, G = mats["S"], mats["G"]
    E = {}

    def psd():
        return cola.PSD(ops.Dense(S.copy()))

    def gen():
        return ops.Dense(G.copy())

    for key in KEYS:
        kn = f"key={key}"
        for k in (-1, 0, 2):
            for rand in ("normal", "rademacher"):
                E[f"hutch(k={k},{rand},{kn})"] = lambda k=k, rand=rand, key=key: hutchinson_diag_estimate(gen(), k=k, tol=0.5, max_iters=3, rand=rand, key=key)[0]
        E[f"diag(Hutch,{kn})"] = lambda key=key: L.diag(gen(), 1, L.Hutch(tol=0.5, max_iters=2, key=key))
        E[f"trace(Hutch,rademacher,{kn})"] = lambda key=key: L.trace(gen(), L.Hutch(tol=0.5, max_iters=2, rand="rademacher", key=key))
        E[f"slq({kn})"] = lambda key=key: stochastic_lanczos_quad(psd(), np.log, max_iters=6, tol=1e-10, vtol=0.5, key=key)
        E[f"lanczos(default start,{kn})"] = lambda key=key: lanczos(psd(), max_iters=4, tol=1e-10, key=key)[:2]
        E[f"arnoldi(default start,{kn})"] = lambda key=key: arnoldi(gen(), max_iters=4, tol=1e-10, key=key)[:2]
        E[f"power_iteration({kn})"] = lambda key=key: power_iteration(psd(), tol=1e-8, max_iter=50, key=key)[:2]
        E[f"eig(Lanczos(),{kn})"] = lambda key=key: L.eig(psd(), 2, "LM", L.Lanczos(max_iters=6, tol=1e-10, key=key))
        E[f"eig(Arnoldi(),{kn})"] = lambda key=key: L.eig(gen(), 2, "LM", L.Arnoldi(max_iters=6, tol=1e-10, key=key))
        E[f"eigmax(PowerIteration(),{kn})"] = lambda key=key: L.eigmax(psd(), L.PowerIteration(tol=1e-8, max_iter=50, key=key))
        E[f"NystromPrecond({kn})"] = lambda key=key: NystromPrecond(psd(), rank=2, key=key)
    E["eigmax(Auto)"] = lambda: L.eigmax(psd())
    E["randomized_svd"] = lambda: randomized_svd(gen(), 3)
    E["lobpcg"] = lambda: lobpcg(psd(), max_iters=3)
    # n >= 5 * block: scipy's lobpcg iterates on the start block (for smaller n it falls back to a dense eigh that ignores the block)
    S64 = mats["S64"]
    E["lobpcg(n=64,block=4)"] = lambda: lobpcg(cola.PSD(ops.Dense(S64.copy())), max_iters=4)
    E["lobpcg(n=64,block=4,key=7)"] = lambda: lobpcg(cola.PSD(ops.Dense(S64.copy())), max_iters=4, key=7)
    E["eig(LOBPCG(),n=64)"] = lambda: L.eig(cola.PSD(ops.Dense(S64.copy())), 2, "LM", LOBPCG(max_iters=4))
    E["eig(LOBPCG())"] = lambda: L.eig(psd(), 2, "LM", LOBPCG(max_iters=3))
    from cola.linalg.preconditioning.preconditioners import AdaNysPrecond, select_rank_adaptively
    E["AdaNysPrecond"] = lambda: AdaNysPrecond(psd(), rank=2, bounds=(0.1, 1.0, 10.0))
    E["select_rank_adaptively"] = lambda: select_rank_adaptively(psd(), 1, 4, tol=1e-3)
    E["inv(CG,Nystrom)@b"] = lambda: L.inv(psd(), L.CG(tol=1e-8, max_iters=30, P=NystromPrecond(psd(), rank=2, key=3))) @ np.ones(6)
    E["logdet(Lanczos,Hutch)"] = lambda: L.logdet(psd(), L.Lanczos(max_iters=6, tol=1e-10), L.Hutch(tol=0.5, max_iters=2, key=1))
    U = {"user:seed(5)": ("seed", 5), "user:seed(11)": ("seed", 11), "user:randn(3)": ("randn", 3), "user:normal(2)": ("normal", 2)}
    return E, U


_EV = None
_CANON = {}


def _state_digest():
    st = np.random.get_state()
    return hashlib.sha256(repr(st[0]).encode() + st[1].tobytes() + repr(st[2:]).encode()).hexdigest()[:16]


def prepare(tier, seed):
    """canonical result of every cola event from a clean state (parent process, before the workers fork)"""
    global _EV
    _EV = events(seed)
    E, U = _EV
    logging.disable(logging.CRITICAL)
    with warnings.catch_warnings():
        warnings.simplefilter("ignore")
        for name, fn in E.items():
            np.random.seed(seed)
            try:
                _CANON[name] = digest(fn())
            except Exception as e:
                _CANON[name] = f"exc:{type(e).__name__}"
    logging.disable(logging.NOTSET)


def run_history(hist, seed):
    E, U = _EV
    vio = []
    np.random.seed(seed)
    ref = np.random.RandomState(seed)  # what the user's generator would do without cola in between
    ntr = 0
    for pos, name in enumerate(hist):
        ntr += 1
        if name in U:
            kind, arg = U[name]
            if kind == "seed":
                np.random.seed(arg)
                ref.seed(arg)
            else:
                got = np.random.randn(arg) if kind == "randn" else np.random.normal(size=arg)
                want = ref.randn(arg) if kind == "randn" else ref.normal(size=arg)
                if not np.array_equal(got, want):
                    prev = [h for h in hist[:pos] if h in E]
                    vio.append({"key": f"C17|user-draw-perturbed|after:{prev[-1] if prev else '-'}", "what": f"user draw {name} differs from the history "
                                f"without cola calls (last cola call: {prev[-1] if prev else None})", "detail": {"history": hist, "position": pos}})
            continue
        before = _state_digest()
        try:
            out = digest(E[name]())
        except Exception as e:
            out = f"exc:{type(e).__name__}"
        after = _state_digest()
        if before != after:
            vio.append({"key": f"C17|global-rng-state-changed|{name}", "what": f"{name} changed numpy's global random state",
                        "detail": {"history": hist, "position": pos}})
        if out != _CANON[name]:
            vio.append({"key": f"C17|result-depends-on-history|{name}", "what": f"{name} returned a different result than from a clean state",
                        "detail": {"history": hist, "position": pos, "got": out, "canonical": _CANON[name]}})
        if isinstance(out, str) and out.startswith("exc:"):
            vio.append({"key": f"C17|{out}|{name}", "what": f"{name} raised", "detail": {"history": hist}})
    return ntr, vio


# ------------------------------------------------------------------------------ (b) exact expectation
def sign_cube(n):
    return [np.array(s, dtype=np.float64) for s in itertools.product((1.0, -1.0), repeat=n)]


def exact_expectation(M, k, dtype=np.float64):
    """average of the estimator over the full Rademacher cube, each sign vector used equally often, one block of bs=n columns per call"""
    n = M.shape[0]
    cube = sign_cube(n)
    total = int(np.lcm(len(cube), n))
    cols = [cube[i % len(cube)] for i in range(total)]
    blocks = [np.stack(cols[i:i + n], axis=1) for i in range(0, total, n)]
    A = ops.LinearOperator(dtype, (n, n), matmat=lambda X: M @ X)
    ests = []
    orig = np_fns.randn
    try:
        for Z in blocks:
            np_fns.randn = lambda *shape, dtype=None, device=None, key=None, Z=Z: Z.astype(dtype)
            est, _ = hutchinson_diag_estimate(A, k=k, tol=0.5, max_iters=1, rand="rademacher", key=3)
            ests.append(np.asarray(est))
    finally:
        np_fns.randn = orig
    return np.mean(ests, axis=0), len(blocks)


def bilinear_reference(M, Z, k):
    n = M.shape[0]
    MZ = M @ Z
    rows = range(0, n - k) if k >= 0 else range(-k, n)
    return np.array([np.mean(MZ[r, :] * Z[r + k, :]) for r in rows])


def run_case(case, seed):
    kind = case[0]
    logging.disable(logging.CRITICAL)
    vio, ntr, outcome = [], 0, ""
    with warnings.catch_warnings():
        warnings.simplefilter("ignore")
        if kind == "HIST":
            ntr, vio = run_history(case[1], seed)
            outcome = "h" + str(len(vio))
        elif kind == "CUBE":
            _, fam, n, k = case
            g = P.rng(seed, "c17cube", fam, n)
            if fam == "Dense":
                M = P.ints(g, (n, n), -3, 3)
            elif fam == "Diagonal":
                M = np.diag(P.ints(g, (n, ), -3, 3, nonzero=True))
            elif fam == "Tridiagonal":
                M = np.diag(P.ints(g, (n, ), -3, 3)) + np.diag(P.ints(g, (n - 1, ), -3, 3), 1) + np.diag(P.ints(g, (n - 1, ), -3, 3), -1)
            else:  # KronSum of two 2x2 / (1x1)
                a = P.ints(g, (2, 2), -2, 2)
                b = P.ints(g, (n // 2, n // 2), -2, 2)
                M = np.kron(a, np.eye(n // 2)) + np.kron(np.eye(2), b)
            est, calls = exact_expectation(M, k)
            want = np.diag(M, k)
            ntr = calls
            tol = 0.0 if n in (1, 2, 4) else 1e-12
            if est.shape != want.shape or np.max(np.abs(est - want), initial=0.0) > tol:
                vio.append({"key": f"C17|hutchinson-biased|{fam}|k{'=0' if k == 0 else ('>0' if k > 0 else '<0')}",
                            "what": f"average of the Hutchinson estimate over the full Rademacher cube differs from diag(A, {k}) ({fam}, n={n})",
                            "detail": {"expectation": est.tolist(), "want": want.tolist(), "n": n, "k": k}})
            # normal branch: the same bilinear form on injected probes
            Z = (P.ints(g, (n, n), -3, 3, nonzero=True) * 0.5)
            orig = np_fns.randn
            try:
                np_fns.randn = lambda *shape, dtype=None, device=None, key=None: Z.astype(dtype)
                A = ops.LinearOperator(np.float64, (n, n), matmat=lambda X: M @ X)
                got = np.asarray(hutchinson_diag_estimate(A, k=k, tol=0.5, max_iters=1, rand="normal", key=3)[0])
            finally:
                np_fns.randn = orig
            ntr += 1
            ref = bilinear_reference(M, Z, k)
            if got.shape != ref.shape or np.max(np.abs(got - ref), initial=0.0) > 1e-12:
                vio.append({"key": f"C17|hutchinson-normal-branch-not-the-bilinear-form|{fam}|k{'=0' if k == 0 else ('>0' if k > 0 else '<0')}",
                            "what": "estimate on injected probes differs from mean_j (A z_j)_r z_j[r+k]", "detail": {"got": got.tolist(), "want": ref.tolist(), "n": n, "k": k}})
            outcome = f"cube:{fam}:{n}:{k}"
        elif kind == "DIAGEXACT":
            _, n, key, iters = case
            d = P.ints(P.rng(seed, "c17d", n), (n, ), -4, 4, nonzero=True)
            est = np.asarray(hutchinson_diag_estimate(ops.Diagonal(d), k=0, tol=0.5, max_iters=iters, rand="rademacher", key=key)[0])
            ntr = 1
            if not np.array_equal(est, d):
                vio.append({"key": "C17|diagonal-rademacher-not-exact", "what": "Hutchinson with Rademacher probes on a Diagonal operator is not exact",
                            "detail": {"got": est.tolist(), "want": d.tolist(), "key": key, "max_iters": iters}})
            outcome = "diagexact"
        elif kind == "CAP":
            _, tol, iters, rand = case
            M = P.ints(P.rng(seed, "c17cap"), (12, 12), -3, 3)
            calls = [0]

            def mm(X):
                calls[0] += 1
                return M @ X

            A = ops.LinearOperator(np.float64, (12, 12), matmat=mm)
            hutchinson_diag_estimate(A, k=0, tol=tol, max_iters=iters, rand=rand, key=4)
            ntr = 1
            if calls[0] > iters or calls[0] < 1:
                vio.append({"key": f"C17|hutchinson-cap|tol={tol}", "what": f"{calls[0]} block products with max_iters={iters}", "detail": {"calls": calls[0], "max_iters": iters}})
            outcome = f"cap:{calls[0]}"
        elif kind == "KEYFORM":
            # a NumPy integer is an integer key: same stream as the Python int of the same value
            _, routine = case
            mats = _ops(seed)
            fns = {"hutch": lambda key: hutchinson_diag_estimate(ops.Dense(mats["G"].copy()), k=0, tol=0.5, max_iters=2, key=key)[0],
                   "lanczos": lambda key: lanczos(cola.PSD(ops.Dense(mats["S"].copy())), max_iters=4, tol=1e-10, key=key)[:2],
                   "power_iteration": lambda key: power_iteration(cola.PSD(ops.Dense(mats["S"].copy())), tol=1e-8, max_iter=50, key=key)[:2],
                   "NystromPrecond": lambda key: NystromPrecond(cola.PSD(ops.Dense(mats["S"].copy())), rank=2, key=key)}
            ntr, outcome = 0, "keyform"
            ref_d = digest(fns[routine](7))
            for form in (np.int64(7), np.int32(7), np.uint8(7)):
                ntr += 1
                try:
                    d = digest(fns[routine](form))
                    if d != ref_d:
                        vio.append({"key": f"C17|key-form|different-stream|{routine}", "what": f"{routine}: key={type(form).__name__}(7) gives a different result than key=7", "detail": {}})
                except Exception as e:
                    vio.append({"key": f"C17|key-form|exc:{type(e).__name__}|{routine}", "what": f"{routine}: key={type(form).__name__}(7) raises {type(e).__name__}", "detail": {"msg": str(e)[:200]}})
                    break
        elif kind == "PROBES":
            # several iterations: record every probe block the estimator multiplies with.  The sampling error it claims (var / (i * bs))
            # assumes i * bs INDEPENDENT probes: no block may be drawn twice, and the estimate must be the bilinear form averaged over
            # ALL recorded probes (equal weights), for every offset
            _, n, k, rand, key, iters, via = case
            M = P.ints(P.rng(seed, "c17probes", n), (n, n), -3, 3).astype(np.float64)
            blocks = []

            def mm2(X):
                blocks.append(np.array(X, copy=True))
                return M @ X

            A = ops.LinearOperator(np.float64, (n, n), matmat=mm2)
            if via == "estimate":
                est = np.asarray(hutchinson_diag_estimate(A, k=k, tol=1.1e-3, max_iters=iters, rand=rand, key=key)[0])
            else:
                import cola.linalg as L
                est = np.asarray(L.diag(A, k, L.Hutch(tol=1.1e-3, max_iters=iters, rand=rand, key=key)))
            ntr = 3
            tag = f"{rand},k{'=0' if k == 0 else ('>0' if k > 0 else '<0')},{via}"
            if not (1 <= len(blocks) <= iters):
                vio.append({"key": f"C17|hutchinson-cap|{tag}", "what": f"{len(blocks)} block products with max_iters={iters}", "detail": {"calls": len(blocks)}})
            dup = [(i, j) for i in range(len(blocks)) for j in range(i + 1, len(blocks)) if blocks[i].shape == blocks[j].shape and np.array_equal(blocks[i], blocks[j])]
            if dup:
                vio.append({"key": f"C17|hutchinson-reuses-probes|{tag}", "what": f"iterations {dup[0]} multiply with the same probe block: the samples are not "
                            "independent, so the estimate is not within the sampling error implied by its variance", "detail": {"duplicates": dup[:5], "blocks": len(blocks), "n": n, "key": key}})
            if blocks:
                Z = np.concatenate(blocks, axis=1)
                if rand == "rademacher" and not np.all(np.abs(Z) == 1):
                    vio.append({"key": f"C17|rademacher-probes-not-signs|{tag}", "what": "Rademacher probes are not +-1", "detail": {}})
                want = bilinear_reference(M, Z, k)
                if est.shape != want.shape or not np.allclose(est, want, rtol=1e-10, atol=1e-10):
                    vio.append({"key": f"C17|hutchinson-not-the-mean-over-its-probes|{tag}", "what": "the estimate is not the equal-weight average of the "
                                "bilinear form over the probes that were drawn", "detail": {"got": est.tolist()[:6], "want": want.tolist()[:6], "blocks": len(blocks)}})
            outcome = f"probes:{len(blocks)}"
    logging.disable(logging.NOTSET)
    return {"transitions": ntr, "outcome": outcome, "violations": vio}


_DESC = {}


def cases(tier, seed):
    E, U = _EV if _EV else events(seed)
    names = list(E) + list(U)
    depth = 2 if tier == "quick" else 3
    out = [["HIST", [a]] for a in names]
    out += [["HIST", [a, b]] for a in names for b in names]
    if depth >= 3:
        out += [["HIST", [a, b, c]] for a in names for b in names for c in names]
        _DESC["length3_event_set"] = len(names)
    for fam in ("Dense", "Diagonal", "Tridiagonal", "KronSum"):
        for n in (1, 2, 3, 4):
            if fam == "KronSum" and n not in (2, 4):
                continue
            if fam == "Tridiagonal" and n < 2:
                continue
            for k in range(-n + 1, n):
                out.append(["CUBE", fam, n, k])
    for n in (1, 3, 7, 101):
        for key in (None, 0, 7, 123):
            for iters in (1, 2, 5):
                out.append(["DIAGEXACT", n, key, iters])
    for tol in (3e-2, 0.5):
        for iters in (1, 2, 5, 50):
            for rand in ("normal", "rademacher"):
                out.append(["CAP", tol, iters, rand])
    for routine in ("hutch", "lanczos", "power_iteration", "NystromPrecond"):
        out.append(["KEYFORM", routine])
    for n in (6, 12):
        for k in (0, 2, -1):
            for rand in ("normal", "rademacher"):
                for key in (None, 0, 7):
                    for iters in (2, 3, 8):
                        for via in ("estimate", "diag(Hutch)"):
                            out.append(["PROBES", n, k, rand, key, iters, via])
    _DESC.update({"probe_record_cases": sum(1 for c in out if c[0] == "PROBES"), "cola_events": len(E), "user_events": len(U), "histories": sum(1 for c in out if c[0] == "HIST"), "max_history_length": depth,
                  "probe_cube_cases": sum(1 for c in out if c[0] == "CUBE"), "work_items": len(out)})
    return out


def case_signature(case):
    return str(case)[:100]


def describe(tier, seed):
    return {
        "bound": "histories: every sequence of <= 2 events over " + str(_DESC.get("cola_events")) + " cola events (every randomised routine x key in "
                 "{None, 0, 7}) and 4 user events" + ("; every sequence of 3 events over all " + str(_DESC.get("length3_event_set")) + " events"
                                                      if tier == "thorough" else "")
                 + "; Hutchinson: full Rademacher cube for n<=4, all offsets, 4 operator families; Diagonal exactness for 4 keys x 3 caps x 4 sizes; "
                   "iteration cap over 2 tolerances x 4 caps x 2 probe kinds; recorded probes over n in {6, 12} x 3 offsets x 2 probe kinds x 3 keys x caps {2, 3, 8} x "
                   "{hutchinson_diag_estimate, diag(A, k, Hutch())}",
        "alphabet": _DESC,
        "oracle": "numpy.random.get_state() bit-identical around every cola call; every call equals its clean-state result bit for bit; user draws "
                  "equal those of the history without cola calls; average over the probe cube == diag(A, k) exactly; no probe block is drawn twice within a "
                  "run and the estimate equals the equal-weight mean of the bilinear form over all recorded probes",
    }
