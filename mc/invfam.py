"""Families of invertible, well-conditioned operator terms (shared by C06, C07, C11 and C19)."""
from . import alphabet as AB

D = AB.D


def leaves(tier="quick"):
    L = [
        D(2, 2, "f8", "wc"), D(3, 3, "f8", "wc"), D(3, 3, "c16", "wc"), D(2, 2, "f8", "wcs"), D(1, 1, "f8", "wc"), D(2, 2, "c16", "wcs"),
        ["Ann", "PSD", D(3, 3, "f8", "spd")], ["Ann", "PSD", D(2, 2, "c16", "spd")],
        ["Tri", 3, "f8", True, "g"], ["Tri", 2, "c16", False, "g"], ["Tri", 3, "c16", True, "g"], ["Tri", 2, "f8", False, "g"],
        ["Diag", 3, "f8", "mixed"], ["Diag", 2, "c16", "mixed"], ["Ann", "PSD", ["Diag", 2, "f8", "pos"]],
        ["Scalar", "two", 2, "f8"], ["Scalar", "m3", 3, "f8"], ["Scalar", "half", 2, "f8"], ["Scalar", "cj", 2, "c16"],
        ["Scalar", "m3", 1, "f8"], ["Scalar", "half", 4, "f8"],
        ["Identity", 2, "f8"], ["Identity", 3, "c16"],
        ["Perm", 3, "cyc", "f8"], ["Perm", 2, "swap", "f8"], ["Perm", 4, "cyc3", "f8"], ["Perm", 3, "swap", "f8"], ["Perm", 4, "cyc", "f8"],
        ["Ann", "Unitary", D(3, 3, "c16", "orth")], ["Ann", "Unitary", ["House", 3, "f8", "g"]], ["Ann", "Unitary", D(2, 2, "f8", "orth")],
        # kinds without a structural inverse rule
        ["Tridiag", 3, "f8", "dd"], ["Tridiag", 2, "c16", "dd"], ["Sparse", [3, 3], "f8", "dd"], ["Generic", [3, 3], "c16", "wc"],
        ["Generic", [2, 2], "f8", "wc"], ["matmul", D(2, 3, "f8", "rdd"), D(3, 2, "f8", "cdd")],
        ["Ann", "PSD", ["Tridiag", 3, "f8", "ddsym"]], ["Ann", "PSD", ["Generic", [3, 3], "c16", "spd"]],
        ["add", ["Ann", "PSD", D(3, 3, "f8", "spd")], ["Ann", "PSD", ["Diag", 3, "f8", "pos"]]],
    ]
    return L


UN = {
    "T": AB.UNARY["T"], "H": AB.UNARY["H"], "neg": AB.UNARY["neg"],
    "lmul": lambda a: [["lmul", c, a] for c in ("m3", "half", "cj")],
    "selfprod": lambda a: [["gram", "AA", a], ["gram", "AAA", a]],  # ONE operator object used two / three times in a product
}
BI = {
    "matmul": lambda a, b: [["matmul", a, b]],
    "Product": lambda a, b: [["Product", [a, b]]],
    "kron": AB.BINARY["kron"],
    "BlockDiag": lambda a, b: [["BlockDiag", [a, b], m] for m in ([1, 1], [2, 1], [1, 3])],
}
TE = {"Kronecker3": AB.TERNARY["Kronecker3"]}


def square(pairs):
    return [(t, s) for t, s in pairs if s[0] == s[1]]


def terms(tier, max_dim=36):
    L = AB.with_shapes(leaves(tier))
    un, bi = UN, BI
    if tier == "quick":
        un = {"T": UN["T"], "H": UN["H"], "lmul": lambda a: [["lmul", "m3", a]], "selfprod": UN["selfprod"]}
        bi = {"matmul": BI["matmul"], "kron": BI["kron"], "BlockDiag": lambda a, b: [["BlockDiag", [a, b], [2, 1]]]}
    l1 = square(AB.grow([L], unary=un, binary=bi, ternary=TE, ternary_pool=L[:3] + L[12:13] + L[15:16] + L[23:24], max_dim=max_dim))
    out = L + l1
    info = {"leaves": len(L), "depth1": len(l1)}
    if tier == "thorough":
        un2 = {"T": AB.UNARY["T"], "lmul": lambda a: [["lmul", "m3", a]]}
        bi2 = {"matmul": BI["matmul"], "kron": BI["kron"], "BlockDiag": lambda a, b: [["BlockDiag", [a, b], [2, 1]]]}
        pk = {repr(L[i][0]) for i in (0, 2, 6, 8, 13, 16, 23, 28, 31)}
        l1r = [(t, s) for t, s in l1 if all(repr(c) in pk for c in (t[1] if isinstance(t[1], list) and t[0] in ("Product", "BlockDiag", "Kronecker") else
                                                                     [x for x in t[1:] if isinstance(x, list)]))]
        l2 = square(AB.grow([L, l1r], unary=un2, binary=bi2, max_dim=max_dim, partner=lambda a: repr(a) in pk, cap=40000))
        out += l2
        info["depth1_used_for_depth2"] = len(l1r)
        info["depth2"] = len(l2)
        info["depth2_cap_hit"] = len(l2) >= 40000
    return [t for t, _ in out], info
