"""Operators on the far side of the automatic small/large switch (more than 10^6 entries): identity plus rank 3, given only through their
matmat, so that the Krylov algorithms Auto() then selects finish in a handful of steps and the reference is available in closed form."""
import numpy as np

from . import payload as P


def lowrank_identity(seed, n, psd, tag="large"):
    """returns (matmat, U, W): A = I + U W^T (W = U when psd); the three eigenvalues away from 1 are about 2, 3.25, 5, well separated"""
    g = P.rng(seed, "lowrank", n, psd, tag)
    U = g.standard_normal((n, 3)) / np.sqrt(n) * np.array([1.0, 1.5, 2.0])[None, :]  # U^T U ~ diag(1, 2.25, 4): separated eigenvalues
    B = np.array([[1.0, 0.5, 0.0], [0.0, 1.0, 0.4], [0.3, 0.0, 1.0]])  # non-symmetric, well conditioned
    W = U if psd else U @ B

    def mm(X):
        return X + U @ (W.T @ X)

    return mm, U, W


def f_apply(f, U, W, x):
    """f(I + U W^T) x = f(1) x + U [(f(I + G) - f(1) I) G^-1] W^T x with G = W^T U (3 x 3, invertible for generic payloads)"""
    G = W.T @ U
    lam, V = np.linalg.eig(np.eye(3) + G)
    fIG = (V * f(lam.astype(np.complex128))[None, :]) @ np.linalg.inv(V)
    core = (fIG - f(np.complex128(1.0)) * np.eye(3)) @ np.linalg.inv(G)
    y = f(np.complex128(1.0)) * x + U @ (core @ (W.T @ x))
    return y.real if (np.max(np.abs(y.imag)) <= 1e-12 * max(1.0, np.max(np.abs(y)))) else y


def spectrum(U, W):
    """the three eigenvalues of I + U W^T that differ from 1"""
    return 1.0 + np.linalg.eigvals(W.T @ U)
