"""Independent Krylov oracles (no cola): exact rational optimum for small integer systems, re-orthogonalised
float64 optimum otherwise; prescribed-spectrum matrix families; a counting operator wrapper is in props."""
from fractions import Fraction

import numpy as np

from . import payload as P


# ----------------------------------------------------------------------------- exact rational arithmetic
def _to_frac(M):
    M = np.asarray(M)
    if np.iscomplexobj(M):
        raise ValueError("exact oracle is for real integer data; complex data goes through the real embedding")
    return [[Fraction(float(x)) for x in row] for row in np.atleast_2d(M)]  # floats are dyadic rationals: exact


def real_embed(M):
    """complex n x n -> real 2n x 2n; complex vector -> real 2n (exact for Gaussian-integer data)"""
    M = np.asarray(M)
    if M.ndim == 1:
        return np.concatenate([M.real, M.imag])
    return np.block([[M.real, -M.imag], [M.imag, M.real]])


def frac_solve(G, h):
    """solve G y = h (G square list-of-lists of Fractions, possibly singular: least-norm on the pivot columns)"""
    n = len(G)
    A = [row[:] + [h[i]] for i, row in enumerate(G)]
    piv = []
    r = 0
    for c in range(n):
        p = next((i for i in range(r, n) if A[i][c] != 0), None)
        if p is None:
            continue
        A[r], A[p] = A[p], A[r]
        inv = 1 / A[r][c]
        A[r] = [x * inv for x in A[r]]
        for i in range(n):
            if i != r and A[i][c] != 0:
                f = A[i][c]
                A[i] = [x - f * y for x, y in zip(A[i], A[r])]
        piv.append(c)
        r += 1
    y = [Fraction(0)] * n
    for i, c in enumerate(piv):
        y[c] = A[i][n]
    return y


def exact_min_residual_sq(A, r0, m, metric=None):
    """min over y of || r0 - A K y ||^2 (metric=None, GMRES) with K = [r0, A r0, ..., A^(m-1) r0], exact rationals.
    Real data only (embed complex first).  Returns a float of the exact rational optimum."""
    Af = _to_frac(A)
    n = len(Af)
    v = [Fraction(float(x)) for x in np.asarray(r0).reshape(-1)]

    def mv(M, x):
        return [sum(M[i][j] * x[j] for j in range(n)) for i in range(n)]

    K = []
    w = v
    for _ in range(min(m, n)):
        K.append(w)
        w = mv(Af, w)
    AK = [mv(Af, k) for k in K]
    d = len(K)
    G = [[sum(AK[i][t] * AK[j][t] for t in range(n)) for j in range(d)] for i in range(d)]
    h = [sum(AK[i][t] * v[t] for t in range(n)) for i in range(d)]
    y = frac_solve(G, h)
    res = [v[t] - sum(AK[i][t] * y[i] for i in range(d)) for t in range(n)]
    return float(sum(x * x for x in res))


def exact_min_anorm_err_sq(A, b, x0, m, Pm=None):
    """CG optimum: min over x in x0 + K_m(PA, P r0) of (x - x*)^T A (x - x*), exact rationals (real SPD data).
    Returns (optimum as float, ||x*||_A^2 as float)."""
    Af = _to_frac(A)
    n = len(Af)
    fr = lambda vec: [Fraction(float(x)) for x in np.asarray(vec).reshape(-1)]  # noqa: E731
    bf, x0f = fr(b), fr(x0)
    Pf = _to_frac(Pm) if Pm is not None else None

    def mv(M, x):
        return [sum(M[i][j] * x[j] for j in range(n)) for i in range(n)]

    xs = frac_solve(Af, bf)
    r0 = [bf[i] - y for i, y in enumerate(mv(Af, x0f))]
    z = mv(Pf, r0) if Pf else r0
    K = []
    w = z
    for _ in range(min(m, n)):
        K.append(w)
        w = mv(Af, w)
        if Pf:
            w = mv(Pf, w)
    e0 = [xs[i] - x0f[i] for i in range(n)]
    d = len(K)
    if d == 0:
        Ae0 = mv(Af, e0)
        return float(sum(e0[i] * Ae0[i] for i in range(n))), float(sum(xs[i] * y for i, y in enumerate(mv(Af, xs))))
    AK = [mv(Af, k) for k in K]
    G = [[sum(K[i][t] * AK[j][t] for t in range(n)) for j in range(d)] for i in range(d)]
    h = [sum(AK[i][t] * e0[t] for t in range(n)) for i in range(d)]
    y = frac_solve(G, h)
    e = [e0[t] - sum(K[i][t] * y[i] for i in range(d)) for t in range(n)]
    Ae = mv(Af, e)
    Axs = mv(Af, xs)
    return float(sum(e[i] * Ae[i] for i in range(n))), float(sum(xs[i] * Axs[i] for i in range(n)))


# ----------------------------------------------------------------------------- float oracles
def krylov_basis(op, v, m, reorth=2):
    """orthonormal basis of K_m(op, v) (columns), full re-orthogonalisation; stops when the space is exhausted"""
    v = np.asarray(v, dtype=np.complex128)
    n = v.shape[0]
    Q = np.zeros((n, 0), dtype=np.complex128)
    w = v
    scale = np.linalg.norm(v)
    for _ in range(min(m, n)):
        for _ in range(reorth):
            w = w - Q @ (Q.conj().T @ w)
        nw = np.linalg.norm(w)
        if nw <= 1e-10 * max(scale, 1e-300):
            break
        q = w / nw
        Q = np.concatenate([Q, q[:, None]], axis=1)
        w = op(q)
        scale = max(scale, np.linalg.norm(w))
    return Q


def float_min_residual(M, r0, m):
    """min_{z in K_m(M, r0)} || r0 - M z ||"""
    Q = krylov_basis(lambda x: M @ x, r0, m)
    if Q.shape[1] == 0:
        return float(np.linalg.norm(r0))
    W = M @ Q
    y, *_ = np.linalg.lstsq(W, r0.astype(np.complex128), rcond=None)
    return float(np.linalg.norm(r0 - W @ y))


def float_min_anorm_err(M, b, x0, m, Pm=None):
    """min_{x in x0 + K_m(PM, P r0)} ||x - x*||_M ; returns (optimum, ||x*||_M)"""
    xs = np.linalg.solve(M, b.astype(np.complex128))
    r0 = b - M @ x0
    z = Pm @ r0 if Pm is not None else r0
    op = (lambda x: Pm @ (M @ x)) if Pm is not None else (lambda x: M @ x)
    Q = krylov_basis(op, z, m)
    e0 = xs - x0
    an = lambda e: float(np.sqrt(max(0.0, (e.conj() @ (M @ e)).real)))  # noqa: E731
    if Q.shape[1] == 0:
        return an(e0), an(xs)
    G = Q.conj().T @ (M @ Q)
    y = np.linalg.solve(G, Q.conj().T @ (M @ e0))
    return an(e0 - Q @ y), an(xs)


# ----------------------------------------------------------------------------- matrix families with known factors
def unitary(seed, n, cplx, tag="u"):
    g = P.rng(seed, "unitary", n, cplx, tag)
    Z = g.standard_normal((n, n)) + (1j * g.standard_normal((n, n)) if cplx else 0)
    Q, R = np.linalg.qr(Z)
    return Q * (np.diag(R) / np.abs(np.diag(R)))[None, :]


def hermitian(seed, n, lam, cplx, tag="h"):
    """Q diag(lam) Q^H with a seed-chosen unitary Q; returns (A, Q)"""
    Q = unitary(seed, n, cplx, tag)
    A = (Q * np.asarray(lam)[None, :]) @ Q.conj().T
    A = (A + A.conj().T) / 2
    return (A if cplx else A.real), Q


def diagonalizable(seed, n, lam, cplx, condV=3.0, tag="d"):
    """V diag(lam) V^-1 with cond(V) ~ condV; real if not cplx (lam must then be real); returns (A, V)"""
    g = P.rng(seed, "diagonalizable", n, cplx, tag)
    U, W = unitary(seed, n, cplx, tag + "U"), unitary(seed, n, cplx, tag + "W")
    s = np.linspace(1.0, condV, n)
    V = (U * s[None, :]) @ W.conj().T
    A = (V * np.asarray(lam)[None, :]) @ np.linalg.inv(V)
    return (A if cplx else A.real), (V if cplx else V.real)


def spectrum(kind, n, seed=0):
    g = P.rng(seed, "spectrum", kind, n)
    if kind == "cond1":
        return np.ones(n)
    if kind == "cond10":
        return np.linspace(1, 10, n)
    if kind == "cond1e3":
        return np.linspace(1, 1e3, n)
    if kind == "three":
        return np.array([1.0, 4.0, 9.0])[np.arange(n) % 3]
    if kind == "clusters":
        return np.where(np.arange(n) % 2 == 0, 1.0, 100.0) * (1 + 1e-3 * np.linspace(0, 1, n))
    if kind == "cond1e6":
        return np.geomspace(1, 1e6, n)
    if kind == "indef":
        lam = np.linspace(1, 10, n)
        return lam * np.where(np.arange(n) % 2 == 0, 1, -1)
    raise ValueError(kind)
