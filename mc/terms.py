"""Builder: term -> real cola operator made with the public constructors / combinators on freshly
allocated payload arrays.  `owned` collects every caller-owned array that was handed to cola (for C18)."""
import numpy as np

import cola
from cola import ops

from . import payload as P
from .refmodel import _slice_obj

ANN = {"PSD": cola.PSD, "SelfAdjoint": cola.SelfAdjoint, "Unitary": cola.Unitary, "Stiefel": cola.Stiefel}


class Ctx:
    def __init__(self, seed):
        self.seed = seed
        self.owned = []

    def own(self, a):
        self.owned.append(a)
        return a


def build(t, seed, ctx=None):
    ctx = ctx or Ctx(seed)
    return _b(t, ctx)


def _b(t, c):
    k = t[0]
    s = c.seed
    if k == "Dense":
        return ops.Dense(c.own(P.dense(s, t[1], t[2], t[3])))
    if k == "Arr":
        return c.own(P.dense(s, t[1], t[2], t[3]))
    if k == "Generic":
        M = c.own(P.dense(s, t[1], t[2], t[3]))
        return ops.LinearOperator(M.dtype, M.shape, matmat=lambda X, M=M: M @ X)
    if k == "Tri":
        return ops.Triangular(c.own(P.tri(s, t[1], t[2], t[3], t[4])), lower=t[3])
    if k == "Sparse":
        vals, rows, cols = P.sparse(s, t[1], t[2], t[3])
        return ops.Sparse(c.own(vals), c.own(rows), c.own(cols), shape=tuple(t[1]))
    if k == "Scalar":
        return ops.ScalarMul(P.scalar(t[1]), (t[2], t[2]), dtype=P.dt(t[3]))
    if k == "Identity":
        return ops.Identity((t[1], t[1]), P.dt(t[2]))
    if k == "Diag":
        return ops.Diagonal(c.own(P.diag(s, t[1], t[2], t[3])))
    if k == "Tridiag":
        a, b, g = P.tridiag(s, t[1], t[2], t[3])
        return ops.Tridiagonal(c.own(a), c.own(b), c.own(g))
    if k == "Perm":
        p = c.own(P.perm(t[1], t[2]))
        return ops.Permutation(p, P.dt(t[3])) if t[3] else ops.Permutation(p)
    if k == "House":
        v, beta = P.house(s, t[1], t[2], t[3])
        return ops.Householder(c.own(v), beta)
    if k == "Kernel":
        x1, x2 = P.kernel_pts(s, t[1], t[2], t[3])
        return ops.Kernel(c.own(x1), c.own(x2), P.kernel_fn(t[3]), t[4], t[5])
    if k == "FFT":
        return ops.FFT(t[1], P.dt(t[2]))
    if k == "Jac":
        f, x0, _ = P.jac_fn(s, t[1])
        return ops.Jacobian(f, c.own(x0))
    if k == "Hess":
        f, x0, _ = P.hess_fn(s, t[1])
        return ops.Hessian(f, c.own(x0))
    if k == "Lib":
        import cola.linalg as L
        which, n, tok = t[1], t[2], t[3]
        if which == "TriInv":
            return L.inv(ops.Triangular(c.own(P.tri(s, n, tok, True, "unit")), lower=True))
        if which == "TriInvUpper":
            return L.inv(ops.Triangular(c.own(P.tri(s, n, tok, False, "g")), lower=False))
        if which == "CGInv":
            return L.inv(cola.PSD(ops.Dense(c.own(P.dense(s, (n, n), tok, "spd")))), L.CG(tol=1e-13, max_iters=100))
        if which == "LSTSQ":
            from cola.linalg.inverse.pinv import LSTSQ
            return L.pinv(ops.Dense(c.own(P.dense(s, (n, n), tok, "spd"))), LSTSQ())
        if which == "ExpLanczos":
            M = c.own(P.dense(s, (n, n), tok, "spd") / 8.0)
            return L.exp(cola.PSD(ops.Dense(M)), L.Lanczos(max_iters=n + 2, tol=1e-13))
        if which == "PinvWide":
            return L.pinv(ops.Dense(c.own(P.dense(s, (n, n + 1), tok, "rdd"))))
        raise ValueError(which)
    if k == "NoDisp":
        return cola.no_dispatch(_b(t[1], c))
    if k == "densify_lazify":
        return cola.lazify(cola.densify(_b(t[1], c)))
    if k == "Ann":
        return ANN[t[1]](_b(t[2], c))
    if k == "matmul":
        return _b(t[1], c) @ _b(t[2], c)
    if k == "add":
        return _b(t[1], c) + _b(t[2], c)
    if k == "sub":
        return _b(t[1], c) - _b(t[2], c)
    if k == "neg":
        return -_b(t[1], c)
    if k == "lmul":
        return P.scalar(t[1]) * _b(t[2], c)
    if k == "rmul":
        return _b(t[1], c) * P.scalar(t[2])
    if k == "div":
        return _b(t[1], c) / P.scalar(t[2])
    if k == "rdiv":
        return P.scalar(t[1]) / _b(t[2], c)
    if k == "kron":
        return cola.kron(_b(t[1], c), _b(t[2], c))
    if k == "kronsum":
        return cola.kronsum(_b(t[1], c), _b(t[2], c))
    if k == "Kronecker":
        return ops.Kronecker(*[_b(x, c) for x in t[1]])
    if k == "KronSum":
        return ops.KronSum(*[_b(x, c) for x in t[1]])
    if k == "BlockDiag":
        if t[2]:
            return ops.BlockDiag(*[_b(x, c) for x in t[1]], multiplicities=list(t[2]))
        return ops.BlockDiag(*[_b(x, c) for x in t[1]])
    if k == "block_diag":
        return cola.block_diag(*[_b(x, c) for x in t[1]])
    if k == "Concat":
        return ops.Concatenated(*[_b(x, c) for x in t[1]], axis=t[2])
    if k == "Product":
        return ops.Product(*[_b(x, c) for x in t[1]])
    if k == "Sum":
        return ops.Sum(*[_b(x, c) for x in t[1]])
    if k == "pysum":
        return sum([_b(x, c) for x in t[1]])
    if k == "gram":  # the A^H A / A^T A / A A^H / A A^T patterns built from ONE object
        A = _b(t[2], c)
        return {"HA": lambda: A.H @ A, "TA": lambda: A.T @ A, "AH": lambda: A @ A.H, "AT": lambda: A @ A.T, "AA": lambda: A @ A,
                "AAA": lambda: A @ A @ A}[t[1]]()
    if k == "T":
        return _b(t[1], c).T
    if k == "H":
        return _b(t[1], c).H
    if k == "slice":
        A = _b(t[1], c)
        rs, cs = _slice_obj(t[2]), _slice_obj(t[3])
        if isinstance(rs, np.ndarray):
            c.own(rs)
        if isinstance(cs, np.ndarray):
            c.own(cs)
        return A[rs, cs]
    raise ValueError(f"unknown term kind {k}")


def to_source(t):
    """executable-looking Python for a replay file (payload arrays named by their descriptor)"""
    k = t[0]
    if k in ("Dense", "Generic", "Arr", "Sparse", "Kernel"):
        return f"{k}<{t[1][0]}x{t[1][1]},{t[2]},{t[3]}>"
    if k in ("Tri", ):
        return f"Triangular<{t[1]},{t[2]},{'lower' if t[3] else 'upper'},{t[4]}>"
    if k == "Scalar":
        return f"ScalarMul({P.scalar(t[1])!r},({t[2]},{t[2]}),{t[3]})"
    if k in ("Identity", "FFT"):
        return f"{k}({t[1]},{t[2]})"
    if k in ("Diag", "Tridiag", "House"):
        return f"{k}<{t[1]},{t[2]},{t[3]}>"
    if k == "Perm":
        return f"Permutation({P.perm(t[1], t[2]).tolist()},{t[3]})"
    if k in ("Jac", "Hess"):
        return f"{k}<{t[1]}>"
    if k == "Lib":
        return f"library-made:{t[1]}<{t[2]},{t[3]}>"
    if k == "Ann":
        return f"cola.{t[1]}({to_source(t[2])})"
    if k == "NoDisp":
        return f"cola.no_dispatch({to_source(t[1])})"
    if k == "densify_lazify":
        return f"cola.lazify(cola.densify({to_source(t[1])}))"
    b = {"matmul": "@", "add": "+", "sub": "-"}
    if k in b:
        return f"({to_source(t[1])} {b[k]} {to_source(t[2])})"
    if k == "neg":
        return f"(-{to_source(t[1])})"
    if k == "lmul":
        return f"({P.scalar(t[1])!r} * {to_source(t[2])})"
    if k == "rmul":
        return f"({to_source(t[1])} * {P.scalar(t[2])!r})"
    if k == "div":
        return f"({to_source(t[1])} / {P.scalar(t[2])!r})"
    if k == "rdiv":
        return f"({P.scalar(t[1])!r} / {to_source(t[2])})"
    if k in ("kron", "kronsum"):
        return f"cola.{k}({to_source(t[1])}, {to_source(t[2])})"
    if k in ("Kronecker", "KronSum", "Product", "Sum"):
        return f"{k}({', '.join(to_source(x) for x in t[1])})"
    if k == "BlockDiag":
        return f"BlockDiag({', '.join(to_source(x) for x in t[1])}, multiplicities={t[2]})"
    if k == "block_diag":
        return f"cola.block_diag({', '.join(to_source(x) for x in t[1])})"
    if k == "pysum":
        return f"sum([{', '.join(to_source(x) for x in t[1])}])"
    if k == "Concat":
        return f"Concatenated({', '.join(to_source(x) for x in t[1])}, axis={t[2]})"
    if k in ("T", "H"):
        return f"{to_source(t[1])}.{k}"
    if k == "gram":
        a = to_source(t[2])
        return {"HA": f"(A.H @ A with A={a})", "TA": f"(A.T @ A with A={a})", "AH": f"(A @ A.H with A={a})",
                "AT": f"(A @ A.T with A={a})", "AA": f"(A @ A with A={a})", "AAA": f"(A @ A @ A with A={a})"}[t[1]]
    if k == "slice":
        return f"{to_source(t[1])}[{_slice_obj(t[2])!r}, {_slice_obj(t[3])!r}]"
    return str(t)
