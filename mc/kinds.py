"""One small, square, well-conditioned representative of every operator class (for the configuration lattices
of C04 and as building blocks elsewhere).  Values are symmetric positive definite where the kind allows it so that
every algorithm (Cholesky, CG, Lanczos, ...) can actually run on them."""
import numpy as np

import cola
from cola import ops
from cola.linalg.algorithm_base import IterativeOperatorWInfo

from . import payload as P


def spd(n, tok="f8", seed=0, tag="k"):
    g = P.rng(seed, "kinds-spd", n, tok, tag)
    B = P.ints(g, (n, n), -1, 1, cplx=P.is_cplx(tok))
    return (B @ B.conj().T + (n + 1) * np.eye(n)).astype(P.DT[tok])


def gen(n, m, tok="f8", seed=0, tag="g"):
    g = P.rng(seed, "kinds-gen", n, m, tok, tag)
    return (P.ints(g, (n, m), -2, 2, cplx=P.is_cplx(tok)) + 4 * np.eye(n, m)).astype(P.DT[tok])


def base_kinds(n=2, tok="f8", seed=0):
    """name -> thunk building a fresh n x n operator of that class"""
    T = P.DT[tok]
    S = lambda tag="k": spd(n, tok, seed, tag)  # noqa: E731

    def sparse():
        M = S("sp")
        r, c = np.nonzero(M)
        return ops.Sparse(M[r, c].astype(T), r.astype(np.int64), c.astype(np.int64), shape=(n, n))

    def tridiag():
        M = S("td")
        return ops.Tridiagonal(np.diag(M, -1).astype(T).copy(), np.diag(M).astype(T).copy(), np.diag(M, 1).astype(T).copy())

    def kernel():
        x = gen(n, n, tok, seed, "kx")
        return ops.Kernel(x, x.conj(), lambda a, b: a @ b.T + 0, 1, 1)

    def jac():
        M = S("jac").real.astype(np.float64)
        return ops.Jacobian(lambda x: M @ x, np.ones(n))

    def hess():
        M = S("hess").real.astype(np.float64)
        return ops.Hessian(lambda x: 0.5 * x @ M @ x, np.ones(n))

    def tri_inv():
        from cola.linalg.inverse.inv import TriangularInv
        return TriangularInv(ops.Triangular(np.tril(S("ti")), lower=True))

    def iter_op():
        from cola.linalg import CG
        return IterativeOperatorWInfo(cola.PSD(ops.Dense(S("it"))), CG(tol=1e-10, max_iters=50))

    def lanczos_unary():
        from cola.linalg.unary.unary import LanczosUnary
        return LanczosUnary(cola.PSD(ops.Dense(S("lu"))), np.exp, max_iters=n + 1, tol=1e-12)

    def arnoldi_unary():
        from cola.linalg.unary.unary import ArnoldiUnary
        return ArnoldiUnary(ops.Dense(S("au")), np.exp, max_iters=n, tol=1e-12)

    def lstsq():
        from cola.linalg.inverse.pinv import LSTSQSolve
        return LSTSQSolve(ops.Dense(S("ls")))

    def nys():
        from cola.linalg.preconditioning.preconditioners import NystromPrecond
        return NystromPrecond(cola.PSD(ops.Dense(S("ny").real.astype(np.float64))), rank=1, key=3)

    def nys_lazy():
        from cola.linalg.preconditioning.preconditioners import NystromPrecond, inverse
        return inverse(NystromPrecond(cola.PSD(ops.Dense(S("ny").real.astype(np.float64))), rank=1, key=3))

    def ada_nys():
        from cola.linalg.preconditioning.preconditioners import AdaNysPrecond
        return AdaNysPrecond(cola.PSD(ops.Dense(S("ada").real.astype(np.float64))), rank=1, bounds=(0.1, 1.0, 10.0))

    K = {
        "Dense": lambda: ops.Dense(S("d")),
        "Triangular": lambda: ops.Triangular(np.tril(S("t")), lower=True),
        "TriangularUpper": lambda: ops.Triangular(np.triu(S("t")), lower=False),
        "Sparse": sparse,
        "ScalarMul": lambda: ops.ScalarMul(3., (n, n), dtype=T),
        "Identity": lambda: ops.Identity((n, n), T),
        "Diagonal": lambda: ops.Diagonal(np.arange(2, n + 2).astype(T)),
        "Tridiagonal": tridiag,
        "Permutation": lambda: ops.Permutation(np.roll(np.arange(n), 1), T),
        "Householder": lambda: ops.Householder(np.eye(n, 1).astype(T) * 1.0, 2.0),
        "Kernel": kernel,
        "FFT": lambda: ops.FFT(n, np.complex128 if tok in ("f8", "c16") else np.complex64),
        "Generic": lambda: ops.LinearOperator(T, (n, n), matmat=lambda X, M=S("gen"): M @ X),
        "Jacobian": jac,
        "Hessian": hess,
        "Product": lambda: ops.Product(ops.Dense(S("p1")), ops.Dense(S("p2"))),
        "ProductRect": lambda: ops.Product(ops.Dense(gen(n, n + 1, tok, seed, "r1")), ops.Dense(gen(n + 1, n, tok, seed, "r2"))),
        "Sum": lambda: ops.Sum(ops.Dense(S("s1")), ops.Diagonal(np.arange(1, n + 1).astype(T))),
        "Kronecker": lambda: ops.Kronecker(ops.Dense(S("k1")), ops.Diagonal(np.arange(1, n + 1).astype(T))),
        "KronSum": lambda: ops.KronSum(ops.Dense(S("ks1")), ops.Dense(S("ks2"))),
        "BlockDiag": lambda: ops.BlockDiag(ops.Dense(S("b1")), ops.Diagonal(np.arange(1, n + 1).astype(T)), multiplicities=[2, 1]),
        "Transpose": lambda: ops.Transpose(ops.LinearOperator(T, (n, n), matmat=lambda X, M=S("tr"): M @ X)),
        "Adjoint": lambda: ops.Adjoint(ops.LinearOperator(T, (n, n), matmat=lambda X, M=S("ad"): M @ X)),
        "Sliced": lambda: ops.Dense(spd(n + 1, tok, seed, "sl"))[:n, :n],
        "Concatenated": lambda: ops.Concatenated(ops.Dense(gen(1, n, tok, seed, "c1")), ops.Dense(gen(n - 1, n, tok, seed, "c2")), axis=0)
        if n > 1 else ops.Concatenated(ops.Dense(gen(1, 1, tok, seed, "c1")), axis=0),
        "TriangularInv": tri_inv,
        "IterativeOperatorWInfo": iter_op,
        "LanczosUnary": lanczos_unary,
        "ArnoldiUnary": arnoldi_unary,
        "LSTSQSolve": lstsq,
    }
    if tok == "f8":
        K.update({"NystromPrecond": nys, "NystromPrecondLazy": nys_lazy, "AdaNysPrecond": ada_nys})
    if P.is_cplx(tok):
        K.pop("Jacobian")
        K.pop("Hessian")
    return K


def all_operator_classes():
    """every LinearOperator subclass reachable from the imported cola (parametric instances collapsed)"""
    import cola.linalg  # noqa: F401
    seen, out = set(), []

    def walk(c):
        for s in c.__subclasses__():
            nm = s.__name__.split("[")[0]
            if getattr(s, "parametric", False) and "[" in s.__name__:
                continue
            if s not in seen:
                seen.add(s)
                out.append((nm, s))
                walk(s)

    walk(ops.LinearOperator)
    return out
