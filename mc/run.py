"""CLI entry: python -m mc.run <PROPERTY_ID> [--tier ..] [--replay file]"""
import importlib
import os
import sys

sys.path.insert(0, os.path.dirname(os.path.dirname(os.path.abspath(__file__))))


def main():
    if len(sys.argv) < 2:
        print("usage: check <PROPERTY_ID> [--tier quick|thorough] [--replay file]")
        return 2
    pid = sys.argv[1]
    if pid == "selfcheck":
        from mc import shim
        import cola  # noqa: F401
        shim.install()
        shim.selfcheck()
        print("shim selfcheck ok; cola imported from", os.path.dirname(cola.__file__))
        return 0
    from mc import shim
    import cola  # noqa: F401
    shim.install()
    mod = importlib.import_module(f"props.{pid.lower()}")
    from mc import harness
    return harness.main(mod, sys.argv[2:])


if __name__ == "__main__":
    sys.exit(main())
