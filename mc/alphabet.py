"""Leaf alphabets L_full > L_mid > L_small and the bounded term generator (DESIGN.md 2.2 / 2.4)."""
import itertools

from .refmodel import Inadmissible, shape_of


def D(r, c, tok="f8", var="g"):
    return ["Dense", [r, c], tok, var]


def leaves_full():
    L = []
    for (r, c) in [(1, 1), (2, 2), (3, 3), (2, 3), (3, 2), (4, 1), (1, 4), (1, 9), (2, 17), (17, 2)]:
        L.append(D(r, c))
    for (r, c) in [(2, 2), (3, 3), (2, 3), (3, 2)]:
        L += [D(r, c, "f4"), D(r, c, "c16")]
    L.append(D(2, 2, "c8"))
    for n in (2, 3):
        for lower in (True, False):
            L += [["Tri", n, "f8", lower, "g"], ["Tri", n, "c16", lower, "g"]]
    L += [["Tri", 3, "f8", True, "unit"], ["Tri", 3, "f4", False, "g"]]
    for shp in ([3, 3], [2, 3], [3, 2]):
        L += [["Sparse", shp, "f8", "g"], ["Sparse", shp, "c16", "g"]]
    L.append(["Sparse", [3, 3], "f4", "g"])
    for n in (1, 2, 3):
        L += [["Scalar", "two", n, "f8"], ["Scalar", "m3", n, "f8"], ["Scalar", "cj", n, "c16"]]
    L += [["Scalar", "zero", 2, "f8"], ["Scalar", "half", 3, "f4"], ["Scalar", "half", 2, "c16"]]
    for n in (1, 2, 3, 4):
        L.append(["Identity", n, "f8"])
    L += [["Identity", 2, "c16"], ["Identity", 3, "f4"], ["Identity", 3, "c16"]]
    for n in (2, 3):
        L += [["Diag", n, "f8", "mixed"], ["Diag", n, "c16", "mixed"], ["Diag", n, "f8", "pos"]]
    L.append(["Diag", 3, "f4", "mixed"])
    for n in (1, 2, 3, 4):
        L += [["Tridiag", n, "f8", "gen"]]
    L += [["Tridiag", 3, "f8", "sym"], ["Tridiag", 3, "c16", "gen"], ["Tridiag", 2, "c16", "sym"],
          ["Tridiag", 3, "f4", "gen"]]
    L += [["Perm", 2, "swap", None], ["Perm", 3, "swap", None], ["Perm", 3, "cyc", None], ["Perm", 3, "id", "f8"],
          ["Perm", 4, "cyc3", "f8"], ["Perm", 3, "cyc", "f8"], ["Perm", 2, "swap", "c16"], ["Perm", 4, "cyc", None]]
    L += [["House", 2, "f8", "g"], ["House", 3, "f8", "g"], ["House", 3, "c16", "g"], ["House", 2, "c16", "g"],
          ["House", 3, "f8", "nonunit"], ["House", 3, "c16", "nonunit"]]
    L += [["Kernel", [3, 3], "f8", "lin", 1, 1], ["Kernel", [3, 3], "f8", "sq", 2, 2], ["Kernel", [3, 3], "f8", "lin", 3, 3],
          ["Kernel", [4, 4], "f8", "lin", 3, 3], ["Kernel", [3, 2], "f8", "lin", 1, 1], ["Kernel", [2, 3], "f8", "sq", 2, 1],
          ["Kernel", [3, 3], "c16", "lin", 2, 2]]
    for n in (1, 2, 3, 4, 8):
        L.append(["FFT", n, "c16"])
    L.append(["FFT", 2, "c8"])
    for (r, c) in [(2, 2), (3, 3), (2, 3), (3, 2)]:
        L.append(["Generic", [r, c], "f8", "g"])
    L += [["Generic", [3, 3], "c16", "g"], ["Generic", [2, 3], "c16", "g"]]
    L += [["NoDisp", ["Diag", 3, "f8", "mixed"]], ["NoDisp", D(2, 3, "c16")]]
    L += annotated_leaves()
    L += library_leaves()
    L += sliced_leaves()
    return L


def sliced_leaves():
    """selections with repeated positions on one side only, reached through the left product (lazy transpose / adjoint, the wide densify path)"""
    A = ["s", None, None, None]
    return [
        ["slice", D(2, 17), ["i", [1, 1]], A],  # wide: to_dense goes through the left product, which must accumulate the repeated row
        ["slice", D(17, 2, "c16"), A, ["i", [1, 1, 0]]],
        ["T", ["slice", D(3, 3, "c16"), ["i", [0, 0, 1]], A]],
        ["H", ["slice", D(3, 2), ["i", [2, 2, 0]], ["i", [1, 0]]]],
        ["T", ["slice", D(3, 3), A, ["i", [2, 2, 0]]]],
    ]


def library_leaves():
    """operators the library itself returns, used as leaves (tolerance tier)"""
    return [["Lib", "TriInv", 3, "f8"], ["Lib", "TriInvUpper", 2, "c16"], ["Lib", "TriInv", 3, "c16"], ["Lib", "CGInv", 3, "f8"], ["Lib", "CGInv", 2, "c16"],
            ["Lib", "LSTSQ", 3, "f8"], ["Lib", "ExpLanczos", 3, "f8"], ["Lib", "ExpLanczos", 2, "c16"], ["Lib", "PinvWide", 2, "f8"]]


def annotated_leaves():
    return [
        ["Ann", "PSD", D(3, 3, "f8", "spd")], ["Ann", "PSD", D(2, 2, "c16", "spd")], ["Ann", "PSD", D(3, 3, "c16", "spd")],
        ["Ann", "SelfAdjoint", D(3, 3, "f8", "sym")], ["Ann", "SelfAdjoint", D(3, 3, "c16", "sym")],
        ["Ann", "SelfAdjoint", D(2, 2, "c16", "sym")],
        ["Ann", "PSD", ["Diag", 3, "f8", "pos"]], ["Ann", "SelfAdjoint", ["Tridiag", 3, "f8", "sym"]],
        ["Ann", "SelfAdjoint", ["Tridiag", 2, "c16", "sym"]],
        ["Ann", "Unitary", ["House", 3, "c16", "g"]],
        ["Ann", "SelfAdjoint", ["Generic", [3, 3], "c16", "sym"]], ["Ann", "PSD", ["Generic", [2, 2], "c16", "spd"]],
    ]


def leaves_deriv():
    return [["Jac", [3, 2]], ["Jac", [2, 2]], ["Jac", [2, 3]], ["Hess", 3], ["Hess", 2]]


def leaves_mid():
    return [
        D(2, 2), D(3, 3), D(2, 3), D(3, 2), D(2, 2, "c16"), D(3, 3, "c16"), D(2, 3, "c16"), D(3, 2, "f4"), D(2, 2, "f4"),
        ["Tri", 3, "f8", True, "g"], ["Tri", 2, "c16", False, "g"],
        ["Sparse", [3, 3], "f8", "g"], ["Sparse", [2, 3], "c16", "g"],
        ["Scalar", "m3", 2, "f8"], ["Scalar", "cj", 3, "c16"], ["Scalar", "two", 3, "f8"],
        ["Identity", 2, "f8"], ["Identity", 3, "c16"],
        ["Diag", 3, "f8", "mixed"], ["Diag", 2, "c16", "mixed"],
        ["Tridiag", 3, "f8", "gen"], ["Tridiag", 2, "c16", "gen"],
        ["Perm", 3, "cyc", None], ["Perm", 2, "swap", "f8"],
        ["House", 3, "c16", "g"], ["Kernel", [3, 2], "f8", "lin", 1, 1], ["FFT", 2, "c16"],
        ["Generic", [2, 3], "f8", "g"], ["Generic", [3, 3], "c16", "g"],
        ["Ann", "PSD", D(3, 3, "f8", "spd")], ["Ann", "SelfAdjoint", D(2, 2, "c16", "sym")],
        ["Ann", "SelfAdjoint", ["Generic", [3, 3], "c16", "sym"]],
    ]


def leaves_small():
    """~8 primitive leaves plus composite leaves so that every rewrite rule of dot/add/mul/kron/kronsum/
    transpose/adjoint has a triggering argument (pair) at size 1."""
    prim = [
        D(2, 2), D(2, 3, "c16"), D(3, 2, "f4"), ["Diag", 2, "f8", "mixed"], ["Identity", 2, "f8"],
        ["Scalar", "m3", 2, "f8"], ["Tridiag", 2, "c16", "gen"], ["Perm", 2, "swap", None],
        ["Sparse", [2, 3], "f8", "g"], ["Generic", [2, 2], "c16", "g"],
    ]
    comp = [
        ["add", D(2, 2), ["Diag", 2, "c16", "mixed"]],  # Sum
        ["matmul", D(2, 3, "c16"), D(3, 2, "f4")],  # Product
        ["Kronecker", [D(2, 2), ["Diag", 2, "f8", "mixed"]]],
        ["KronSum", [D(2, 2), ["Tridiag", 2, "c16", "gen"]]],
        ["BlockDiag", [D(2, 3, "c16"), ["Identity", 2, "f8"]], [1, 1]],
        ["T", ["Generic", [2, 3], "f8", "g"]],  # lazy Transpose
        ["H", ["Tridiag", 2, "c16", "gen"]],  # lazy Adjoint
        ["lmul", "two", D(2, 2)],  # ScalarMul-times-operator
        ["Ann", "SelfAdjoint", D(2, 2, "c16", "sym")],
    ]
    return prim + comp


SLICE_SPECS = [
    (["s", None, None, None], ["s", 0, 2, None]),
    (["s", 1, None, None], ["s", None, None, None]),
    (["s", None, None, 2], ["s", None, None, -1]),
    (["i", [1, 0]], ["s", None, None, None]),
    (["i", [0, 1]], ["i", [1, 0]]),
    (["s", 0, 2, None], ["s", 0, 2, None]),
    (["i", [0, 0, 1]], ["s", None, None, None]),  # a repeated row position, distinct columns (the left product must accumulate)
    (["s", None, None, None], ["i", [1, 1, 0]]),  # a repeated column position, distinct rows
    (["i", [-1, 0, -1]], ["i", [0, 1, 1]]),  # repeats on both sides, negative positions
]

UNARY = {
    "T": lambda a: [["T", a]],
    "H": lambda a: [["H", a]],
    "neg": lambda a: [["neg", a]],
    "lmul": lambda a: [["lmul", c, a] for c in ("m3", "half", "cj", "zero")],
    "rmul": lambda a: [["rmul", a, c] for c in ("two", "arr2")],
    "div": lambda a: [["div", a, c] for c in ("dm4", "dhalf")],
    "NoDisp": lambda a: [["NoDisp", a]],
    "slice": lambda a: [["slice", a, rs, cs] for rs, cs in SLICE_SPECS],
}

BINARY = {
    "matmul": lambda a, b: [["matmul", a, b]],
    "add": lambda a, b: [["add", a, b]],
    "sub": lambda a, b: [["sub", a, b]],
    "kron": lambda a, b: [["kron", a, b]],
    "kronsum": lambda a, b: [["kronsum", a, b]],
    "BlockDiag": lambda a, b: [["BlockDiag", [a, b], m] for m in ([1, 1], [2, 1], [1, 3])],
    "Concat": lambda a, b: [["Concat", [a, b], 0], ["Concat", [a, b], 1]],
    "Product": lambda a, b: [["Product", [a, b]]],
    "Sum": lambda a, b: [["Sum", [a, b]]],
}

TERNARY = {
    "Kronecker3": lambda a, b, c: [["Kronecker", [a, b, c]]],
    "KronSum3": lambda a, b, c: [["KronSum", [a, b, c]]],
    "BlockDiag3": lambda a, b, c: [["BlockDiag", [a, b, c], [1, 2, 1]]],
    "Concat3": lambda a, b, c: [["Concat", [a, b, c], 0], ["Concat", [a, b, c], 1]],
    "Sum3": lambda a, b, c: [["Sum", [a, b, c]]],
    "Product3": lambda a, b, c: [["Product", [a, b, c]]],
}


def _slice_len(spec, n):
    if spec[0] == "s":
        return len(range(*slice(spec[1], spec[2], spec[3]).indices(n)))
    if max(spec[1]) >= n or min(spec[1]) < -n:
        return None
    return len(spec[1])


def _shape1(t, sa):
    """shape of a unary combinator applied to an operand of shape sa (None: inadmissible)"""
    k = t[0]
    if k in ("T", "H"):
        return (sa[1], sa[0])
    if k == "gram":
        if t[1] in ("AA", "AAA"):
            return sa if sa[0] == sa[1] else None
        return (sa[1], sa[1]) if t[1] in ("HA", "TA") else (sa[0], sa[0])
    if k == "slice":
        r, c = _slice_len(t[2], sa[0]), _slice_len(t[3], sa[1])
        return None if (r is None or c is None or r == 0 or c == 0) else (r, c)
    return sa


def _shape2(t, sa, sb):
    k = t[0]
    if k in ("matmul", "Product"):
        return (sa[0], sb[1]) if sa[1] == sb[0] else None
    if k in ("add", "sub", "Sum", "pysum"):
        return sa if sa == sb else None
    if k == "block_diag":
        return (sa[0] + sb[0], sa[1] + sb[1])
    if k == "kron":
        return (sa[0] * sb[0], sa[1] * sb[1])
    if k == "kronsum":
        return (sa[0] * sb[0], ) * 2 if (sa[0] == sa[1] and sb[0] == sb[1]) else None
    if k == "BlockDiag":
        m = t[2]
        return (sa[0] * m[0] + sb[0] * m[1], sa[1] * m[0] + sb[1] * m[1])
    if k == "Concat":
        ax = t[2]
        if sa[1 - ax] != sb[1 - ax]:
            return None
        return (sa[0] + sb[0], sa[1]) if ax == 0 else (sa[0], sa[1] + sb[1])
    raise ValueError(k)


def _shape3(t, sa, sb, sc):
    if t[0] == "Kronecker":
        return (sa[0] * sb[0] * sc[0], sa[1] * sb[1] * sc[1])
    if t[0] == "BlockDiag":
        m = t[2]
        return (sa[0] * m[0] + sb[0] * m[1] + sc[0] * m[2], sa[1] * m[0] + sb[1] * m[1] + sc[1] * m[2])
    if t[0] == "Concat":
        ax = t[2]
        if not (sa[1 - ax] == sb[1 - ax] == sc[1 - ax]):
            return None
        return (sa[0] + sb[0] + sc[0], sa[1]) if ax == 0 else (sa[0], sa[1] + sb[1] + sc[1])
    if t[0] == "Sum":
        return sa if sa == sb == sc else None
    if t[0] == "Product":
        return (sa[0], sc[1]) if (sa[1] == sb[0] and sb[1] == sc[0]) else None
    if all(s[0] == s[1] for s in (sa, sb, sc)):
        return (sa[0] * sb[0] * sc[0], ) * 2
    return None


def with_shapes(terms):
    return [(t, shape_of(t)) for t in terms]


def grow(layers, unary=UNARY, binary=BINARY, ternary=None, max_dim=40, partner=None, ternary_pool=None, cap=None):
    """layers[s] = list of (term, shape) of size s.  Returns the next layer as (term, shape) pairs: every
    combinator applied to operands whose sizes add up to len(layers)-1.  `partner`: optional predicate; for
    binary combinators at least one operand must satisfy it (keeps L_full x L_full finite).  `cap`: hard cap on
    the layer (reported by the caller as a cap, never as exhaustive)."""
    target = len(layers)
    out = []
    seen = set()

    class Full(Exception):
        pass

    def emit(t, s):
        if s is None or not (0 < s[0] <= max_dim and 0 < s[1] <= max_dim):
            return
        key = repr(t)
        if key in seen:
            return
        seen.add(key)
        out.append((t, s))
        if cap and len(out) >= cap:
            raise Full()

    try:
        for name, fn in unary.items():
            for a, sa in layers[target - 1]:
                for t in fn(a):
                    emit(t, _shape1(t, sa))
        for name, fn in binary.items():
            for sza in range(target):
                szb = target - 1 - sza
                for a, sa in layers[sza]:
                    pa = partner(a) if partner else True
                    for b, sb in layers[szb]:
                        if not (pa or partner(b)):
                            continue
                        for t in fn(a, b):
                            emit(t, _shape2(t, sa, sb))
        if ternary:
            for name, fn in ternary.items():
                for sza, szb, szc in itertools.product(range(target), repeat=3):
                    if sza + szb + szc != target - 1:
                        continue
                    la = layers[sza] if (ternary_pool is None or sza) else ternary_pool
                    lb = layers[szb] if (ternary_pool is None or szb) else ternary_pool
                    lc = layers[szc] if (ternary_pool is None or szc) else ternary_pool
                    for a, sa in la:
                        for b, sb in lb:
                            for c, sc in lc:
                                for t in fn(a, b, c):
                                    emit(t, _shape3(t, sa, sb, sc))
    except Full:
        pass
    return out
