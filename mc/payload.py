"""Payload menus: small exact (integer / Gaussian-integer / dyadic) arrays for every leaf kind.

Shared by the builder (which hands the arrays to cola) and the reference interpreter (which never imports
cola).  VERIF_SEED only selects which numbers fill a payload class; the enumeration over classes is complete
for every seed.  Nothing here touches numpy's global random state.
"""
import hashlib

import numpy as np

DT = {"f8": np.float64, "f4": np.float32, "c16": np.complex128, "c8": np.complex64}


def dt(tok):
    return np.dtype(DT[tok])


def is_cplx(tok):
    return tok in ("c16", "c8")


def rng(seed, *desc):
    h = hashlib.sha256(repr((seed, ) + tuple(desc)).encode()).digest()
    return np.random.Generator(np.random.PCG64(int.from_bytes(h[:8], "big")))


def ints(g, shape, lo=-3, hi=3, cplx=False, nonzero=False):
    a = g.integers(lo, hi + 1, size=shape).astype(np.float64)
    if nonzero:
        a = np.where(a == 0, 1.0, a)
    if cplx:
        b = g.integers(lo, hi + 1, size=shape).astype(np.float64)
        return a + 1j * b
    return a


def dense(seed, shape, tok, var="g"):
    """var: g general | spd (B B^H + I) | sym (B + B^H, indefinite) | uni (unimodular: unit-lower x unit-upper)"""
    g = rng(seed, "dense", tuple(shape), tok, var)
    c = is_cplx(tok)
    r, k = shape
    if var == "g":
        A = ints(g, shape, cplx=c)
        if r == k:  # avoid an all-zero matrix
            A = A + 0.0
    elif var == "spd":
        assert r == k
        B = ints(g, shape, -1, 1, cplx=c)
        A = B @ B.conj().T + np.eye(r)
    elif var == "sym":
        assert r == k
        B = ints(g, shape, -2, 2, cplx=c)
        A = B + B.conj().T
        if r > 1:
            A[0, 0], A[1, 1] = 2.0, -3.0  # indefinite
    elif var == "uni":
        assert r == k
        L = np.tril(ints(g, shape, -1, 1, cplx=c), -1) + np.eye(r)
        U = np.triu(ints(g, shape, -1, 1, cplx=c), 1) + np.eye(r)
        A = L @ U
    elif var in ("wc", "wcs"):  # well conditioned (diagonally dominant), entries of both signs / four phases; wcs: small |det|
        assert r == k
        A = ints(g, shape, -1, 1, cplx=c)
        ph = np.where(g.integers(0, 2, size=r) == 1, 1.0, -1.0).astype(np.complex128)
        if c:
            ph = ph * np.array([1, 1j])[g.integers(0, 2, size=r)]
        A = A - np.diag(np.diag(A)) + np.diag((r + 1) * ph)
        if var == "wcs":
            A = A / 8.0
    elif var in ("rdd", "cdd"):  # full-rank rectangular [D | B] (rdd, r<k) or [D ; B] (cdd, r>k) with D = +-3 I
        m = min(r, k)
        A = ints(g, shape, -1, 1, cplx=c)
        A[:m, :m] = np.diag(np.where(g.integers(0, 2, size=m) == 1, 3.0, -3.0))
    elif var in ("orth", "stf"):  # (columns of a) signed / phased permutation matrix: exactly unitary
        assert r >= k
        p = g.permutation(r)
        ph = np.array([1, -1, 1j, -1j])[g.integers(0, 4 if c else 2, size=r)]
        if r > 1:
            ph[0] = -1  # never the identity
        Q = (np.eye(r)[p] * ph[None, :]).astype(np.complex128)
        A = Q[:, :k]
    else:
        raise ValueError(var)
    return np.ascontiguousarray(A.astype(DT[tok]))


def tri(seed, n, tok, lower, var="g"):
    g = rng(seed, "tri", n, tok, lower, var)
    c = is_cplx(tok)
    A = ints(g, (n, n), cplx=c)
    A = np.tril(A) if lower else np.triu(A)
    d = np.ones(n) if var == "unit" else ints(g, (n, ), 1, 3) * np.where(g.integers(0, 2, size=n) == 1, 1.0, -1.0)
    if c and var != "unit":
        d = d * np.array([1, 1j, -1, -1j])[g.integers(0, 4, size=n)]
    A = A - np.diag(np.diag(A)) + np.diag(d)
    return np.ascontiguousarray(A.astype(DT[tok]))


def sparse(seed, shape, tok, var="g"):
    """COO triplets in unsorted row order and unsorted column order inside a row; no duplicates."""
    g = rng(seed, "sparse", tuple(shape), tok, var)
    r, k = shape
    cells = [(i, j) for i in range(r) for j in range(k)]
    n = max(1, (2 * len(cells)) // 3)
    if var == "dd":  # square, every diagonal cell present with +-(n+1), some off-diagonal +-1: invertible
        off = [q for q, (i, j) in enumerate(cells) if i != j]
        dia = [q for q, (i, j) in enumerate(cells) if i == j]
        pick = g.permutation(np.array(dia + list(g.permutation(off)[:len(off) // 2])))
        rows = np.array([cells[p][0] for p in pick], dtype=np.int64)
        cols = np.array([cells[p][1] for p in pick], dtype=np.int64)
        vals = ints(g, (len(pick), ), -1, 1, cplx=is_cplx(tok), nonzero=True)
        sgn = np.where(g.integers(0, 2, size=len(pick)) == 1, 1.0, -1.0)
        vals = np.where(rows == cols, (r + 1) * sgn, vals).astype(DT[tok])
        return vals, rows, cols
    pick = g.permutation(len(cells))[:n]
    rows = np.array([cells[p][0] for p in pick], dtype=np.int64)
    cols = np.array([cells[p][1] for p in pick], dtype=np.int64)
    vals = ints(g, (n, ), cplx=is_cplx(tok), nonzero=True).astype(DT[tok])
    return vals, rows, cols


def sparse_dense(seed, shape, tok, var="g"):
    vals, rows, cols = sparse(seed, shape, tok, var)
    M = np.zeros(shape, dtype=np.complex128)
    M[rows, cols] = vals
    return M


SCALARS = {
    "two": 2, "m3": -3, "zero": 0, "half": 0.5, "cj": 1 + 2j, "f2": 2.0, "one": 1, "m1": -1,
    "np32": np.float32(2), "npi3": np.int64(3), "np64": np.float64(2.5), "npc128": np.complex128(0.5 + 2j), "arr2": np.array(2.), "arrcj": np.array(1 + 2j),
    "i": 1j, "mi": -1j, "d2": 2, "dm4": -4, "dhalf": 0.5, "four": 4, "quarter": 0.25,
}


def scalar(cid):
    return SCALARS[cid]


def diag(seed, n, tok, var="mixed"):
    g = rng(seed, "diag", n, tok, var)
    if var == "pos":
        d = ints(g, (n, ), 1, 4)
    elif var == "pow4":  # positive with exact square roots
        d = np.array([1., 4., 16., 0.25, 64.])[g.integers(0, 5, size=n)]
    else:
        d = ints(g, (n, ), 1, 3) * np.where(np.arange(n) % 2 == 0, 1.0, -1.0)
        if is_cplx(tok):
            d = d * np.array([1, 1j, -1, -1j, 1])[np.arange(n) % 5]
    return np.ascontiguousarray(d.astype(DT[tok]))


def tridiag(seed, n, tok, var="gen"):
    g = rng(seed, "tridiag", n, tok, var)
    c = is_cplx(tok)
    if var in ("dd", "ddsym"):  # diagonally dominant: invertible, cond <= 3; ddsym: positive definite Hermitian
        alpha = ints(g, (max(n - 1, 0), ), -1, 1, cplx=c, nonzero=True)
        gamma = alpha.conj() if var == "ddsym" else ints(g, (max(n - 1, 0), ), -1, 1, cplx=c, nonzero=True)
        beta = 4.0 * (np.ones(n) if var == "ddsym" else np.where(g.integers(0, 2, size=n) == 1, 1.0, -1.0))
        if c:
            alpha = alpha / np.maximum(np.abs(alpha), 1) if False else alpha
        T = DT[tok]
        return alpha.astype(T), beta.astype(T), gamma.astype(T)
    beta = ints(g, (n, ), cplx=c and var != "sym")
    alpha = ints(g, (max(n - 1, 0), ), cplx=c, nonzero=True)
    gamma = alpha.conj() if var == "sym" else ints(g, (max(n - 1, 0), ), cplx=c, nonzero=True)
    if var == "sym":
        beta = beta.real + 0
    T = DT[tok]
    return alpha.astype(T), beta.astype(T), gamma.astype(T)


def tridiag_dense(seed, n, tok, var="gen"):
    a, b, c = tridiag(seed, n, tok, var)
    return (np.diag(b) + np.diag(a, -1) + np.diag(c, 1)).astype(np.complex128)


def perm(n, var):
    if var == "id":
        p = np.arange(n)
    elif var == "swap":  # one transposition: odd
        p = np.arange(n)
        if n >= 2:
            p[[0, n - 1]] = p[[n - 1, 0]]
    elif var == "cyc":  # n-cycle (non-involutive for n>=3); parity (-1)^(n-1)
        p = np.roll(np.arange(n), 1)
    elif var == "cyc3":  # 3-cycle on the first three: even, non-involutive
        p = np.arange(n)
        p[:3] = [1, 2, 0]
    else:
        raise ValueError(var)
    return p.astype(np.int64)


def perm_dense(n, var):
    p = perm(n, var)
    return np.eye(n)[p].astype(np.complex128)  # (P v)[i] = v[p[i]]


def house(seed, n, tok, var="g"):
    """integer vec with |vec|^2 = 2^k so that beta = 2/|vec|^2 is dyadic: exact reflections."""
    c = is_cplx(tok)
    v = np.zeros((n, 1), dtype=np.complex128)
    if var == "g":
        if n == 1:
            v[0, 0] = 1
        else:
            v[0, 0], v[n - 1, 0] = 1, (1j if c else -1)
        beta = 2.0 / float(np.sum(np.abs(v)**2))
    elif var == "nonunit":  # not a reflection: beta dyadic arbitrary
        g = rng(seed, "house", n, tok, var)
        v[:, 0] = ints(g, (n, ), -2, 2, cplx=c)
        beta = 0.5
    else:
        raise ValueError(var)
    return v.astype(DT[tok]), beta


def house_dense(seed, n, tok, var="g"):
    v, beta = house(seed, n, tok, var)
    v = v.astype(np.complex128)
    return np.eye(n) - beta * (v @ v.conj().T)


def kernel_pts(seed, shape, tok, var="lin"):
    g = rng(seed, "kernel", tuple(shape), tok, var)
    r, k = shape
    x1 = ints(g, (r, 2), -2, 2, cplx=is_cplx(tok)).astype(DT[tok])
    x2 = ints(g, (k, 2), -2, 2, cplx=is_cplx(tok)).astype(DT[tok])
    return x1, x2


def kernel_fn(var):
    if var == "lin":
        return lambda a, b: a @ b.T
    if var == "sq":
        return lambda a, b: (a @ b.T)**2
    raise ValueError(var)


def kernel_dense(seed, shape, tok, var="lin"):
    x1, x2 = kernel_pts(seed, shape, tok, var)
    return kernel_fn(var)(x1.astype(np.complex128), x2.astype(np.complex128))


def fft_dense(n):
    return np.fft.fft(np.eye(n), axis=0, norm="ortho")


def operand(seed, n, cols, tok, tag="x"):
    """right/left operand with small integer entries; cols=None: 1-D."""
    g = rng(seed, "operand", n, cols, tok, tag)
    shape = (n, ) if cols is None else (n, cols)
    return np.ascontiguousarray(ints(g, shape, -2, 2, cplx=is_cplx(tok)).astype(DT[tok]))


# quadratic maps for Jacobian / Hessian (finite differences exact up to rounding)
def jac_fn(seed, shape):
    r, k = shape
    g = rng(seed, "jac", r, k)
    L = ints(g, (r, k), -2, 2)
    Q = ints(g, (r, k), -1, 1)

    def f(x):
        return L @ x + Q @ (x * x)

    x0 = ints(g, (k, ), -2, 2)
    J = L + 2 * Q * x0[None, :]
    return f, x0, J


def hess_fn(seed, n):
    g = rng(seed, "hess", n)
    B = ints(g, (n, n), -2, 2)
    S = B + B.T

    def f(x):
        return 0.5 * x @ S @ x + x.sum()

    x0 = ints(g, (n, ), -2, 2)
    return f, x0, S
