"""Shared explorer driver: enumerates a property's finite case space completely, runs every case against the
real cola code in forked workers, matches violations against the known-findings file, writes evidence and
replay artefacts, and sets the exit status.  See DESIGN.md 2.4-2.7.
"""
import argparse
import hashlib
import json
import multiprocessing as mp
import os
import signal
import sys
import time
import traceback

ROOT = os.path.dirname(os.path.dirname(os.path.abspath(__file__)))
KNOWN = os.path.join(ROOT, "known_findings.txt")
CASE_TIMEOUT_S = int(os.environ.get("VERIF_CASE_TIMEOUT", "120"))


class CaseTimeout(Exception):
    pass


def _alarm(signum, frame):
    raise CaseTimeout()


def digest(obj):
    return hashlib.sha256(json.dumps(obj, sort_keys=True, default=str).encode()).hexdigest()[:16]


def load_known(prop):
    """open entries: 'open: property=<id> key=<key> :: <what>' ; fixed entries suppress nothing."""
    out = {}
    if not os.path.exists(KNOWN):
        return out
    for line in open(KNOWN):
        line = line.rstrip("\n")
        if not line.startswith("open:"):
            continue
        head, _, what = line.partition(" :: ")
        parts = head.split()
        pid = [p for p in parts if p.startswith("property=")][0].split("=", 1)[1]
        key = head.split("key=", 1)[1].strip()
        if pid == prop:
            out[key] = what
    return out


_MOD = None
_SEED = 0
_TIER = "quick"


def _raised_in_library(e):
    """True if the innermost frame of the traceback is cola's own code"""
    import cola
    root = os.path.dirname(os.path.abspath(cola.__file__)) + os.sep
    tb, last = e.__traceback__, None
    while tb is not None:
        last = tb.tb_frame.f_code.co_filename
        tb = tb.tb_next
    return bool(last) and os.path.abspath(last).startswith(root)


_COV_NEW = []


def _cov_start():
    """VERIF_COVERAGE=1 (tools/coverage.py): record which lines of cola/ the exploration executes.  sys.monitoring LINE events are disabled per
    location after the first hit, so the cost is one callback per line per worker."""
    import cola
    root = os.path.dirname(os.path.abspath(cola.__file__)) + os.sep
    mon = sys.monitoring
    tool = mon.COVERAGE_ID
    try:
        mon.use_tool_id(tool, "verif-cov")
    except ValueError:
        pass

    def on_line(code, line):
        if code.co_filename.startswith(root):
            _COV_NEW.append((code.co_filename[len(root):], line))
        return mon.DISABLE

    mon.register_callback(tool, mon.events.LINE, on_line)
    mon.set_events(tool, mon.events.LINE)


def _worker_init():
    signal.signal(signal.SIGALRM, _alarm)
    if os.environ.get("VERIF_COVERAGE") == "1":
        _cov_start()
    if hasattr(_MOD, "setup_worker"):
        _MOD.setup_worker()


def _run_one(case):
    t0 = time.time()
    signal.setitimer(signal.ITIMER_REAL, CASE_TIMEOUT_S)
    seed = _SEED
    if isinstance(case, dict) and "__seed_offset__" in case:  # thorough tiers repeat the enumeration for several payload seeds
        seed, case = _SEED + case["__seed_offset__"], case["case"]
    try:
        res = _MOD.run_case(case, seed)
    except CaseTimeout:
        res = {"transitions": 1, "outcome": "timeout", "violations": [{
            "key": f"{_MOD.PROPERTY}|timeout|{getattr(_MOD, 'case_signature', digest)(case)}",
            "what": f"case did not finish within {CASE_TIMEOUT_S}s", "detail": {}}]}
    except Exception as e:  # a harness bug must never look like a pass
        tb = "".join(traceback.format_exception(type(e), e, e.__traceback__))[-3000:]
        if _raised_in_library(e):
            # the exception escaped from cola itself (e.g. while the case was constructing its operators): that is a finding about the
            # library, reported like any other violation, not a harness error
            sigf = getattr(_MOD, "case_signature", digest)
            res = {"transitions": 1, "outcome": "library-exception", "violations": [{
                "key": f"{_MOD.PROPERTY}|uncaught-library-exception|{type(e).__name__}|{str(sigf(case))[:80]}",
                "what": f"cola raised {type(e).__name__} outside any call the case guards: {str(e)[:160]}", "detail": {"traceback": tb[-1500:]}}]}
        else:
            res = {"transitions": 0, "outcome": "harness-error", "violations": [], "harness_error": tb}
    finally:
        signal.setitimer(signal.ITIMER_REAL, 0)
    res["case"] = case if seed == _SEED else {"__seed_offset__": seed - _SEED, "case": case}
    res["wall"] = time.time() - t0
    if _COV_NEW:
        res["_cov"] = list(_COV_NEW)
        _COV_NEW.clear()
    return res


def _run_chunk(chunk):
    return [_run_one(c) for c in chunk]


def explore(mod, cases, seed, tier, jobs):
    global _MOD, _SEED, _TIER
    _MOD, _SEED, _TIER = mod, seed, tier
    chunk = max(1, min(64, len(cases) // (jobs * 8) or 1))
    chunks = [cases[i:i + chunk] for i in range(0, len(cases), chunk)]
    if jobs <= 1 or len(cases) <= 2:
        _worker_init()
        for ch in chunks:
            yield from _run_chunk(ch)
        return
    ctx = mp.get_context("fork")
    with ctx.Pool(jobs, initializer=_worker_init) as pool:
        for out in pool.imap(_run_chunk, chunks):
            yield from out


def main(mod, argv=None):
    ap = argparse.ArgumentParser()
    ap.add_argument("--tier", default=os.environ.get("VERIF_TIER", "quick"), choices=["quick", "thorough"])
    ap.add_argument("--replay", default=None)
    ap.add_argument("--jobs", type=int, default=int(os.environ.get("VERIF_JOBS", "16")))
    ap.add_argument("--limit", type=int, default=0, help="debug: only the first N cases (never used by MANIFEST)")
    ap.add_argument("--no-evidence", action="store_true")
    ap.add_argument("--verbose", action="store_true")
    args = ap.parse_args(argv)
    seed = int(os.environ.get("VERIF_SEED", "0") or 0)
    prop = mod.PROPERTY
    t0 = time.time()
    known = load_known(prop)

    if args.replay:
        return replay(mod, args.replay, seed, known)

    if hasattr(mod, "prepare"):
        mod.prepare(args.tier, seed)
    cases = list(mod.cases(args.tier, seed))
    offsets = list(getattr(mod, "PAYLOAD_SEEDS", {}).get(args.tier, [0]))
    if offsets != [0]:
        cases = [c if k == 0 else {"__seed_offset__": k, "case": c} for k in offsets for c in cases]
    capped = False
    if args.limit:
        cases, capped = cases[:args.limit], True
    n_states = n_trans = n_errors = n_cases = 0
    outcomes = set()
    by_key = {}
    notes = {}
    samples = []
    harness_errors = []
    slow = []
    cov_lines = set()
    for res in explore(mod, cases, seed, args.tier, args.jobs):
        cov_lines.update(map(tuple, res.pop("_cov", ())))
        n_states += int(res.get("states", 1))
        n_cases += 1
        n_trans += int(res.get("transitions", 0))
        oc = res.get("outcome")
        if isinstance(oc, (list, tuple)):
            outcomes.update(oc)
        elif oc is not None:
            outcomes.add(oc)
        for k, v in (res.get("notes") or {}).items():
            if isinstance(v, (int, float)):
                notes[k] = notes.get(k, 0) + v
            elif isinstance(v, list):
                cur = notes.setdefault(k, [])
                for x in v:
                    if x not in cur and len(cur) < 400:
                        cur.append(x)
            elif isinstance(v, dict) and "max" in v:
                cur = notes.setdefault(k, {"max": 0.0})
                cur["max"] = max(cur["max"], v["max"])
        if res.get("harness_error"):
            harness_errors.append((res["case"], res["harness_error"]))
        if res.get("wall", 0) > 20:
            slow.append((round(res["wall"], 1), res["case"]))
        for v in res.get("violations", []):
            ent = by_key.setdefault(v["key"], {"count": 0, "first": None})
            ent["count"] += 1
            if ent["first"] is None:
                ent["first"] = {"case": res["case"], **v}
        if len(samples) < 4 and (n_cases in (1, 2) or n_cases == len(cases) // 2 or n_cases == len(cases)):
            samples.append({"case": res["case"], "transitions": res.get("transitions"), "outcome":
                            oc if not isinstance(oc, (list, tuple)) else list(oc)[:3],
                            "sample_obs": res.get("sample_obs")})
    if hasattr(mod, "finalize"):
        for v in mod.finalize(args.tier, seed) or []:
            ent = by_key.setdefault(v["key"], {"count": 0, "first": None})
            ent["count"] += 1
            if ent["first"] is None:
                ent["first"] = {"case": v.get("case"), **v}

    if harness_errors:
        print(f"HARNESS-ERROR property={prop}: {len(harness_errors)} case(s) raised inside the harness", flush=True)
        for c, e in harness_errors[:3]:
            print(json.dumps(c, default=str)[:400])
            print(e)
        return 2

    new_keys = [k for k in by_key if k not in known]
    known_hit = {k: by_key[k]["count"] for k in by_key if k in known}
    for k, what in sorted(known.items()):
        n = known_hit.get(k, 0)
        suffix = f"(observed in {n} state(s) of this run)" if n else "(not reached in this tier)"
        print(f"KNOWN-FINDING: property={prop} {what} [key={k}] {suffix}")
    rc = 0
    replay_paths = []
    for k in sorted(new_keys):
        ent = by_key[k]
        path = write_replay(prop, k, ent, seed, args.tier)
        replay_paths.append(path)
        print(f"VIOLATION property={prop} replay={path}")
        print(f"  key={k} states={ent['count']} :: {ent['first'].get('what')}")
        if args.verbose:
            print("  " + json.dumps(ent["first"], default=str)[:1500])
        rc = 1
    wall = time.time() - t0
    desc = mod.describe(args.tier, seed) if hasattr(mod, "describe") else {}
    exhaustive = (not capped) and desc.pop("exhaustive", True)
    cov = {
        "states": max(n_states, 1),
        "transitions": max(n_trans, 1),
        "traces_validated_against_impl": n_states,
        "work_items": n_cases,
        "samples": samples or [{"note": "no cases"}],
        "exhaustive": bool(exhaustive),
        "distinct_outcomes": len(outcomes),
        "violating_states": sum(e["count"] for e in by_key.values()),
        "new_violation_keys": sorted(new_keys)[:50],
        "known_findings_matched": known_hit,
        "slow_cases": slow[:5],
        "jobs": args.jobs,
        "payload_seeds": [seed + k for k in offsets],
        **{f"note_{k}": v for k, v in notes.items()},
        **desc,
    }
    ev = {
        "property_id": prop,
        "tier": args.tier,
        "seed": seed,
        "level": "model_checking",
        "coverage": cov,
        "assumptions": list(getattr(mod, "ASSUMPTIONS", [])),
        "wall_s": round(wall, 2),
        "violations": len(new_keys),
    }
    if os.environ.get("VERIF_COVERAGE") == "1":
        cov_out = os.environ.get("VERIF_COVERAGE_OUT", os.path.join(ROOT, f".coverage_{prop}.json"))
        with open(cov_out, "w") as f:
            json.dump(sorted(cov_lines), f)
    if not args.no_evidence and not args.limit:
        os.makedirs(os.path.join(ROOT, "evidence"), exist_ok=True)
        with open(os.path.join(ROOT, "evidence", f"{prop}.json"), "w") as f:
            json.dump(ev, f, indent=1, default=str)
            f.write("\n")
    print(f"{prop} tier={args.tier} seed={seed} states={n_states} transitions={n_trans} "
          f"distinct_outcomes={len(outcomes)} new_violation_keys={len(new_keys)} known_matched={len(known_hit)} "
          f"exhaustive={exhaustive} wall={wall:.1f}s")
    return rc


def write_replay(prop, key, ent, seed, tier):
    d = os.path.join(ROOT, "replays", prop)
    os.makedirs(d, exist_ok=True)
    path = os.path.join(d, digest([key]) + ".json")
    with open(path, "w") as f:
        json.dump({"property": prop, "key": key, "seed": seed, "tier": tier, "states_with_this_key": ent["count"],
                   **ent["first"]}, f, indent=1, default=str)
        f.write("\n")
    return path


def replay(mod, path, seed, known):
    global _MOD, _SEED
    rec = json.load(open(path))
    seed = rec.get("seed", seed)
    _MOD, _SEED = mod, seed
    if hasattr(mod, "prepare"):
        mod.prepare(rec.get("tier", "quick"), seed)
    _worker_init()
    case = rec["case"]
    r1 = _run_one(json.loads(json.dumps(case)))
    r2 = _run_one(json.loads(json.dumps(case)))
    k1 = sorted(v["key"] for v in r1.get("violations", []))
    k2 = sorted(v["key"] for v in r2.get("violations", []))
    if r1.get("harness_error") or r2.get("harness_error"):
        print("HARNESS-ERROR during replay\n" + str(r1.get("harness_error") or r2.get("harness_error")))
        return 2
    if k1 != k2 or r1.get("outcome") != r2.get("outcome"):
        print(f"HARNESS-ERROR: replay of {path} is not deterministic: {k1} vs {k2}")
        return 2
    new = [v for v in r1.get("violations", []) if v["key"] not in known]
    for v in r1.get("violations", []):
        if v["key"] in known:
            print(f"KNOWN-FINDING: property={mod.PROPERTY} {known[v['key']]} [key={v['key']}]")
    if new:
        print(f"VIOLATION property={mod.PROPERTY} replay={path}")
        for v in new[:10]:
            print(f"  key={v['key']} :: {v.get('what')}")
            print("  " + json.dumps(v.get("detail"), default=str)[:1500])
        return 1
    print(f"replay {path}: no violation (deterministic over 2 runs)")
    return 0
