"""Reference interpreter: the dense matrix, shape and admissible dtypes denoted by a term.

Never imports cola.  Values are computed in complex128; with the integer / dyadic payload menus every
operation below is exact (all partial results are dyadic rationals of small magnitude), which `is_exact`
re-checks on the result so that bit-exact comparison is only used where it is justified.
"""
import numpy as np
from scipy.linalg import block_diag as _block_diag

from . import payload as P

LEAVES = {"Dense", "Tri", "Sparse", "Scalar", "Identity", "Diag", "Tridiag", "Perm", "House", "Kernel", "FFT",
          "Generic", "Jac", "Hess", "Arr", "Lib"}


class Inadmissible(Exception):
    """the term is not well formed (shape mismatch): used by the generators and the rejection checks"""


def promote(*dts):
    out = dts[0]
    for d in dts[1:]:
        out = np.promote_types(out, d)
    return np.dtype(out)


def scalar_dtypes(c, d):
    """admissible result dtypes of (scalar c) * (operator of dtype d): Python scalars are weak (only real -> complex), NumPy scalars promote"""
    d = np.dtype(d)
    iscomplex = isinstance(c, (complex, np.complexfloating)) or (isinstance(c, np.ndarray) and np.iscomplexobj(c))
    weak = np.promote_types(d, np.complex64) if iscomplex else d
    if isinstance(c, (int, float, complex)) and not isinstance(c, np.generic):
        return {np.dtype(weak)}
    cd = np.asarray(c).dtype
    strong = np.promote_types(np.promote_types(d, cd), weak) if cd.kind in "iufc" else weak
    # NumPy scalars and 0-d arrays carry a dtype and promote with it (NumPy 2 / NEP 50: np.float64(2) * float32 array is float64)
    return {np.dtype(strong)}


def is_leaf(t):
    return t[0] in LEAVES


def children(t):
    """operator/array-valued sub-terms of t"""
    k = t[0]
    if k in LEAVES:
        return []
    if k in ("matmul", "add", "sub", "kron", "kronsum"):
        return [t[1], t[2]]
    if k in ("neg", "T", "H", "NoDisp", "densify_lazify"):
        return [t[1]]
    if k == "gram":
        return [t[2]]
    if k in ("lmul", "rdiv"):
        return [t[2]]
    if k in ("rmul", "div", "slice"):
        return [t[1]]
    if k == "Ann":
        return [t[2]]
    if k in ("Kronecker", "KronSum", "BlockDiag", "Concat", "Product", "Sum", "block_diag", "pysum"):
        return list(t[1])
    raise ValueError(f"unknown term kind {k}")


def size(t):
    return 0 if is_leaf(t) else 1 + sum(size(c) for c in children(t))


def subterms(t):
    yield t
    for c in children(t):
        yield from subterms(c)


def _slice_obj(spec):
    if spec[0] == "s":
        return slice(spec[1], spec[2], spec[3])
    return np.array(spec[1], dtype=np.int64)


def kronsum2(A, B):
    return np.kron(A, np.eye(B.shape[0])) + np.kron(np.eye(A.shape[0]), B)


class Ref:
    __slots__ = ("mat", "dtypes")

    def __init__(self, mat, dtypes):
        self.mat = np.asarray(mat, dtype=np.complex128)
        self.dtypes = {np.dtype(d) for d in (dtypes if isinstance(dtypes, (set, list, tuple)) else [dtypes])}

    @property
    def shape(self):
        return self.mat.shape


def _need(cond, msg="shape mismatch"):
    if not cond:
        raise Inadmissible(msg)


def _promote_sets(*sets):
    out = set()

    def rec(i, acc):
        if i == len(sets):
            out.add(promote(*acc))
            return
        for d in sets[i]:
            rec(i + 1, acc + [d])

    rec(0, [])
    return out


def ref(t, seed):
    k = t[0]
    if k in ("Dense", "Generic", "Arr"):
        return Ref(P.dense(seed, t[1], t[2], t[3]), P.dt(t[2]))
    if k == "Tri":
        return Ref(P.tri(seed, t[1], t[2], t[3], t[4]), P.dt(t[2]))
    if k == "Sparse":
        return Ref(P.sparse_dense(seed, t[1], t[2], t[3]), P.dt(t[2]))
    if k == "Scalar":
        return Ref(P.scalar(t[1]) * np.eye(t[2]), P.dt(t[3]))
    if k == "Identity":
        return Ref(np.eye(t[1]), P.dt(t[2]))
    if k == "Diag":
        return Ref(np.diag(P.diag(seed, t[1], t[2], t[3])), P.dt(t[2]))
    if k == "Tridiag":
        return Ref(P.tridiag_dense(seed, t[1], t[2], t[3]), P.dt(t[2]))
    if k == "Perm":
        return Ref(P.perm_dense(t[1], t[2]), P.dt(t[3]) if t[3] else np.float32)
    if k == "House":
        return Ref(P.house_dense(seed, t[1], t[2], t[3]), P.dt(t[2]))
    if k == "Kernel":
        return Ref(P.kernel_dense(seed, t[1], t[2], t[3]), P.dt(t[2]))
    if k == "FFT":
        return Ref(P.fft_dense(t[1]), P.dt(t[2]))
    if k == "Jac":
        return Ref(P.jac_fn(seed, t[1])[2], np.float64)
    if k == "Hess":
        return Ref(P.hess_fn(seed, t[1])[2], np.float64)
    if k == "Lib":  # operators the library itself returns, used as leaves: ["Lib", which, n, tok]
        which, n, tok = t[1], t[2], t[3]
        if which == "TriInv":
            return Ref(np.linalg.inv(P.tri(seed, n, tok, True, "unit").astype(np.complex128)), P.dt(tok))
        if which == "TriInvUpper":
            return Ref(np.linalg.inv(P.tri(seed, n, tok, False, "g").astype(np.complex128)), P.dt(tok))
        if which in ("CGInv", "LSTSQ"):
            return Ref(np.linalg.inv(P.dense(seed, (n, n), tok, "spd").astype(np.complex128)), P.dt(tok))
        if which == "ExpLanczos":
            from scipy.linalg import expm
            return Ref(expm(P.dense(seed, (n, n), tok, "spd").astype(np.complex128) / 8.0), P.dt(tok))
        if which == "PinvWide":
            return Ref(np.linalg.pinv(P.dense(seed, (n, n + 1), tok, "rdd").astype(np.complex128)), P.dt(tok))
        raise ValueError(which)
    if k in ("NoDisp", "Ann", "densify_lazify"):
        return ref(children(t)[0], seed)
    if k in ("matmul", "Product"):
        rs = [ref(c, seed) for c in children(t)]
        m = rs[0].mat
        for r in rs[1:]:
            _need(m.shape[1] == r.mat.shape[0])
            m = m @ r.mat
        return Ref(m, _promote_sets(*[r.dtypes for r in rs]))
    if k in ("add", "sub", "Sum", "pysum"):
        rs = [ref(c, seed) for c in children(t)]
        m = rs[0].mat
        for r in rs[1:]:
            _need(m.shape == r.mat.shape)
            m = m - r.mat if k == "sub" else m + r.mat
        return Ref(m, _promote_sets(*[r.dtypes for r in rs]))
    if k == "neg":
        r = ref(t[1], seed)
        return Ref(-r.mat, r.dtypes)
    if k in ("lmul", "rmul", "div", "rdiv"):
        cid, sub = (t[1], t[2]) if k in ("lmul", "rdiv") else (t[2], t[1])
        r = ref(sub, seed)
        c = P.scalar(cid)
        if k == "rdiv":
            raise Inadmissible("scalar / operator is judged separately")
        cv = complex(np.asarray(c)) if k != "div" else 1.0 / complex(np.asarray(c))
        dts = set()
        for d in r.dtypes:
            dts |= scalar_dtypes(c if k != "div" else (1 / c), d)
        return Ref(cv * r.mat, dts)
    if k in ("kron", "Kronecker"):
        rs = [ref(c, seed) for c in children(t)]
        m = rs[0].mat
        for r in rs[1:]:
            m = np.kron(m, r.mat)
        return Ref(m, _promote_sets(*[r.dtypes for r in rs]))
    if k in ("kronsum", "KronSum"):
        rs = [ref(c, seed) for c in children(t)]
        m = rs[0].mat
        _need(m.shape[0] == m.shape[1], "kronsum needs square operands")
        for r in rs[1:]:
            _need(r.mat.shape[0] == r.mat.shape[1], "kronsum needs square operands")
            m = kronsum2(m, r.mat)
        return Ref(m, _promote_sets(*[r.dtypes for r in rs]))
    if k in ("BlockDiag", "block_diag"):
        rs = [ref(c, seed) for c in t[1]]
        mult = t[2] if k == "BlockDiag" and t[2] else [1] * len(rs)
        blocks = [r.mat for r, m in zip(rs, mult) for _ in range(m)]
        return Ref(_block_diag(*blocks), _promote_sets(*[r.dtypes for r in rs]))
    if k == "Concat":
        rs = [ref(c, seed) for c in t[1]]
        ax = t[2]
        _need(all(r.mat.shape[1 - ax] == rs[0].mat.shape[1 - ax] for r in rs))
        return Ref(np.concatenate([r.mat for r in rs], axis=ax), _promote_sets(*[r.dtypes for r in rs]))
    if k == "gram":
        r = ref(t[2], seed)
        M = r.mat
        if t[1] in ("AA", "AAA"):  # the SAME operator object used two / three times in one product
            m = M @ M if t[1] == "AA" else M @ M @ M
        else:
            m = {"HA": M.conj().T @ M, "TA": M.T @ M, "AH": M @ M.conj().T, "AT": M @ M.T}[t[1]]
        return Ref(m, r.dtypes)
    if k == "T":
        r = ref(t[1], seed)
        return Ref(r.mat.T, r.dtypes)
    if k == "H":
        r = ref(t[1], seed)
        return Ref(r.mat.conj().T, r.dtypes)
    if k == "slice":
        r = ref(t[1], seed)
        rs, cs = _slice_obj(t[2]), _slice_obj(t[3])
        return Ref(r.mat[rs, :][:, cs], r.dtypes)
    raise ValueError(f"unknown term kind {k}")


def shape_of(t):
    """shape without payloads (cheap, for the generators); raises Inadmissible"""
    k = t[0]
    if k in ("Dense", "Sparse", "Kernel", "Generic", "Arr", "Jac"):
        return tuple(t[1])
    if k in ("Tri", "Identity", "Diag", "Tridiag", "Perm", "House", "FFT", "Hess"):
        return (t[1], t[1])
    if k == "Lib":
        return (t[2] + 1, t[2]) if t[1] == "PinvWide" else (t[2], t[2])
    if k == "Scalar":
        return (t[2], t[2])
    if k in ("NoDisp", "Ann", "neg", "lmul", "rmul", "div", "rdiv", "densify_lazify"):
        return shape_of(children(t)[0])
    if k in ("matmul", "Product"):
        ss = [shape_of(c) for c in children(t)]
        for a, b in zip(ss[:-1], ss[1:]):
            _need(a[1] == b[0])
        return (ss[0][0], ss[-1][1])
    if k in ("add", "sub", "Sum", "pysum"):
        ss = [shape_of(c) for c in children(t)]
        _need(all(s == ss[0] for s in ss))
        return ss[0]
    if k in ("kron", "Kronecker"):
        ss = [shape_of(c) for c in children(t)]
        return (int(np.prod([s[0] for s in ss])), int(np.prod([s[1] for s in ss])))
    if k in ("kronsum", "KronSum"):
        ss = [shape_of(c) for c in children(t)]
        _need(all(s[0] == s[1] for s in ss))
        n = int(np.prod([s[0] for s in ss]))
        return (n, n)
    if k in ("BlockDiag", "block_diag"):
        ss = [shape_of(c) for c in t[1]]
        mult = t[2] if k == "BlockDiag" and t[2] else [1] * len(ss)
        return (sum(s[0] * m for s, m in zip(ss, mult)), sum(s[1] * m for s, m in zip(ss, mult)))
    if k == "Concat":
        ss = [shape_of(c) for c in t[1]]
        ax = t[2]
        _need(all(s[1 - ax] == ss[0][1 - ax] for s in ss))
        tot = sum(s[ax] for s in ss)
        return (tot, ss[0][1]) if ax == 0 else (ss[0][0], tot)
    if k in ("T", "H"):
        s = shape_of(t[1])
        return (s[1], s[0])
    if k == "gram":
        s = shape_of(t[2])
        if t[1] in ("AA", "AAA") and s[0] != s[1]:
            raise Inadmissible("not square")
        return (s[1], s[1]) if t[1] in ("HA", "TA") else (s[0], s[0])
    if k == "slice":
        s = shape_of(t[1])
        try:
            return (len(np.arange(s[0])[_slice_obj(t[2])]), len(np.arange(s[1])[_slice_obj(t[3])]))
        except IndexError:
            raise Inadmissible("index out of range")
    raise ValueError(k)


def is_complex_term(t):
    for s in subterms(t):
        if s[0] in ("Dense", "Tri", "Sparse", "Diag", "Tridiag", "House", "Kernel", "Generic", "Arr", "FFT", "Identity"):
            if P.is_cplx(s[2]):
                return True
        if s[0] == "Lib" and P.is_cplx(s[3]):
            return True
        if s[0] == "Scalar" and (P.is_cplx(s[3]) or np.iscomplexobj(P.SCALARS.get(s[1], 0))):
            return True
        if s[0] in ("lmul", "rmul", "div") and np.iscomplexobj(P.SCALARS.get(s[1] if s[0] == "lmul" else s[2], 0)):
            return True
        if s[0] == "Perm" and s[3] and P.is_cplx(s[3]):
            return True
    return False


def low_precision(t):
    """True iff some leaf of t stores single-precision data (then inexact results carry single-precision error
    whatever the promoted result dtype is)"""
    for s in subterms(t):
        for x in s[1:]:
            if x in ("f4", "c8"):
                return True
        if s[0] == "Perm" and s[3] is None:
            return True
    return False


INEXACT_KINDS = {"FFT", "Jac", "Hess", "Lib"}


def is_exact(t, mat, result_dtype=None):
    """True iff bit-exact comparison is justified: no inexact kind, all entries dyadic with small magnitude."""
    for s in subterms(t):
        if s[0] in INEXACT_KINDS:
            return False
    lim = 2.0**20 if (result_dtype is not None and np.dtype(result_dtype) in (np.dtype(np.float32),
                                                                                np.dtype(np.complex64))) else 2.0**44
    m = np.asarray(mat, dtype=np.complex128)
    if m.size == 0:
        return True
    sc = m * 2.0**8
    ok = np.all(sc.real == np.round(sc.real)) and np.all(sc.imag == np.round(sc.imag))
    return bool(ok and np.max(np.abs(m.real)) < lim and np.max(np.abs(m.imag)) < lim)


def shape_class(s):
    r, c = s
    if r == 1 and c == 1:
        return "1x1"
    if 8 * r < c:
        return "vwide"
    if r == c:
        return "sq"
    return "tall" if r > c else "wide"


def signature(t):
    """finding-key signature: kind tree with dtype class and shape class, payload variants abstracted"""
    k = t[0]
    if k in LEAVES:
        tok = {"Scalar": 3, "Perm": 3, "Lib": 3}.get(k, 2)
        d = t[tok] if len(t) > tok and isinstance(t[tok], str) else "-"
        extra = ""
        if k == "Scalar":
            extra = "," + str(t[1])
        if k == "Tri":
            extra = "," + ("lo" if t[3] else "up")
        if k == "Lib":
            extra = "," + str(t[1])
        try:
            sc = shape_class(shape_of(t))
        except Inadmissible:
            sc = "?"
        return f"{k}[{d},{sc}{extra}]"
    if k in ("lmul", "rdiv"):
        return f"{k}({t[1]},{signature(t[2])})"
    if k in ("rmul", "div"):
        return f"{k}({signature(t[1])},{t[2]})"
    if k == "Ann":
        return f"{t[1]}({signature(t[2])})"
    if k == "gram":
        return f"gram{t[1]}({signature(t[2])})"
    if k == "slice":
        return f"slice({signature(t[1])},{_spec_class(t[2])},{_spec_class(t[3])})"
    if k == "BlockDiag":
        return f"BlockDiag({','.join(signature(c) for c in t[1])};m={t[2]})"
    if k == "Concat":
        return f"Concat{t[2]}({','.join(signature(c) for c in t[1])})"
    return f"{k}({','.join(signature(c) for c in children(t))})"


def _spec_class(spec):
    if spec[0] == "s":
        return "s" + ("" if spec[1:] == [None, None, None] else "*")
    return "i"


def coarse_signature(t):
    """kind tree only (no dtype/shape): used to keep the number of finding keys per defect small"""
    k = t[0]
    if k in LEAVES:
        return k
    if k == "Ann":
        return f"{t[1]}({coarse_signature(t[2])})"
    if k == "gram":
        return f"gram{t[1]}({coarse_signature(t[2])})"
    return f"{k}({','.join(coarse_signature(c) for c in children(t))})"
