"""Harness-side NumPy backend shim (trusted base, see DESIGN.md 2.1).

Only the NumPy backend is installed offline and cola/backends/np_fns.py raises
NumpyNotImplementedError for vmap / linear_transpose (and lacks sparse_csr / to_np).  The property
anchors allow the harness to install these at import time.  Nothing cola implements is replaced.
`install()` patches the already imported module object; /repo is not touched.
"""
import os
import sys

_src = os.environ.get("COLA_SRC")
if _src:
    sys.path.insert(0, _src)

import numpy as np  # noqa: E402
import optree  # noqa: E402
from scipy.sparse import csr_array  # noqa: E402

FD_H = 0.5  # central differences are exact for polynomials of degree <= 2 at ANY step; a dyadic step keeps integer payloads free of rounding (1e-3 put eps/h^2 ~ 1e-9 at the edge of the comparison tolerance: Appendix B)


def to_np(a):
    return np.asarray(a)


def sparse_csr(indptr, indices, data, shape):
    return csr_array((data, indices, indptr), shape=shape)


def linear_transpose(fun, primals, duals):
    # transposed action of the linear map `fun`, obtained from the map itself
    n = primals.shape[0]
    M = fun(np.eye(n, dtype=primals.dtype))
    return M.T @ duals


def _is_batched_leaf(leaf):
    return isinstance(leaf, np.ndarray) and leaf.ndim > 0


def vmap(fun, in_axes=0, out_axes=0):
    def mapped(*args):
        leaves, treedef = optree.tree_flatten(args, namespace="cola")
        sizes = [leaf.shape[0] for leaf in leaves if _is_batched_leaf(leaf)]
        if not sizes:
            raise ValueError("vmap shim: nothing to map over")
        b = sizes[0]
        if b == 0:  # empty batch: learn the output structure from a zero template, return empty stacks
            tmpl = [np.zeros(leaf.shape[1:], dtype=leaf.dtype) if _is_batched_leaf(leaf) else leaf for leaf in leaves]
            o = fun(*optree.tree_unflatten(treedef, tmpl))
            ol, otd = optree.tree_flatten(o, namespace="cola")
            return optree.tree_unflatten(otd, [np.zeros((0, ) + np.shape(x), dtype=np.asarray(x).dtype)
                                               if isinstance(x, (np.ndarray, np.generic)) else x for x in ol])
        outs = []
        for i in range(b):
            sl = [leaf[i] if _is_batched_leaf(leaf) else leaf for leaf in leaves]
            outs.append(fun(*optree.tree_unflatten(treedef, sl)))
        out_leaves0, out_treedef = optree.tree_flatten(outs[0], namespace="cola")
        cols = [optree.tree_flatten(o, namespace="cola")[0] for o in outs]
        stacked = []
        for j, leaf0 in enumerate(out_leaves0):
            if isinstance(leaf0, (np.ndarray, np.generic)):
                stacked.append(np.stack([np.asarray(c[j]) for c in cols]))
            else:
                stacked.append(leaf0)
        return optree.tree_unflatten(out_treedef, stacked)

    return mapped


def jvp_derivs(fun, primals, tangents, create_graph=True):
    (x, ), (v, ) = primals, tangents
    return (fun(x + FD_H * v) - fun(x - FD_H * v)) / (2 * FD_H)


def grad(fun):
    def g(x):
        eye = np.eye(x.shape[0], dtype=x.dtype)
        return np.array([(fun(x + FD_H * e) - fun(x - FD_H * e)) / (2 * FD_H) for e in eye])

    return g


def vjp_derivs(fun, primals, duals, create_graph=True):
    (x, ) = primals
    eye = np.eye(x.shape[0], dtype=x.dtype)
    J = np.stack([(fun(x + FD_H * e) - fun(x - FD_H * e)) / (2 * FD_H) for e in eye], 1)
    return (duals @ J, )


_INSTALLED = False


def install(derivatives=True):
    """Patch cola.backends.np_fns in place.  Only names that cola leaves unimplemented are set."""
    global _INSTALLED
    from cola.backends import np_fns
    if _INSTALLED:
        return np_fns
    np_fns.to_np = to_np
    np_fns.sparse_csr = sparse_csr
    np_fns.linear_transpose = linear_transpose
    np_fns.vmap = vmap
    if derivatives:
        np_fns.jvp_derivs = jvp_derivs
        np_fns.grad = grad
        np_fns.vjp_derivs = vjp_derivs
    _INSTALLED = True
    return np_fns


def selfcheck():
    """Hand-computed values for every shim function (run from setup_cmd)."""
    M = np.array([[1., 2.], [3., 4.], [5., 6.]])
    out = linear_transpose(lambda X: M @ X, np.zeros((2, 1)), np.array([[1.], [1.], [1.]]))
    assert np.array_equal(out, np.array([[9.], [12.]])), out
    f = vmap(lambda a, b: a @ b)
    A = np.arange(8.).reshape(2, 2, 2)
    B = np.arange(4.).reshape(2, 2)
    assert np.array_equal(f(A, B), np.stack([A[0] @ B[0], A[1] @ B[1]]))
    S = sparse_csr(np.array([0, 1, 3]), np.array([1, 0, 1]), np.array([5., 6., 7.]), (2, 2))
    assert np.array_equal(S.toarray(), np.array([[0., 5.], [6., 7.]]))
    q = lambda x: np.array([x[0] * x[1], x[0]**2 + 3 * x[1]])  # noqa: E731
    x = np.array([1., 2.])
    J = np.array([[2., 1.], [2., 3.]])
    assert np.allclose(jvp_derivs(q, (x, ), (np.array([1., 0.]), )), J[:, 0], atol=1e-9)
    assert np.allclose(vjp_derivs(q, (x, ), np.array([1., 1.]))[0], J.sum(0), atol=1e-9)
    s = lambda x: x[0]**2 * 1.5 + x[0] * x[1]  # noqa: E731
    assert np.allclose(grad(s)(x), np.array([3 * 1. + 2., 1.]), atol=1e-9)
    assert to_np([1, 2]).tolist() == [1, 2]
    return True
