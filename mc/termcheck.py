"""Per-term observation with memoisation and minimisation to the smallest failing sub-term (DESIGN.md 2.6)."""
import json

import numpy as np

from .refmodel import children, signature


def short(a, n=12):
    try:
        a = np.asarray(a)
        return {"shape": list(a.shape), "dtype": str(a.dtype), "head": np.round(a.reshape(-1)[:n], 6).tolist().__repr__()[:300]}
    except Exception:
        return repr(a)[:300]


def compare(got, want, exact, tol):
    """returns None if equal, else a symptom string"""
    got = np.asarray(got)
    if got.shape != want.shape:
        return "shape"
    if got.size == 0:
        return None
    if not np.all(np.isfinite(got)):
        return "value"
    if exact:
        return None if np.array_equal(got.astype(np.complex128), want) else "value"
    scale = max(1.0, float(np.max(np.abs(want))))
    return None if float(np.max(np.abs(got.astype(np.complex128) - want))) <= tol * scale else "value"


def tol_for(dtype):
    return 2e-4 if np.dtype(dtype) in (np.dtype(np.float32), np.dtype(np.complex64)) else 1e-9


class TermChecker:
    """observe(term, seed) -> (fails: {obs: (symptom, detail)}, transitions, outcome_digest)"""

    def __init__(self, prop, observe, sig=signature):
        self.prop = prop
        self.observe = observe
        self.cache = {}
        self.sig = sig

    def failing(self, term, seed):
        k = json.dumps(term)
        if k not in self.cache:
            if len(self.cache) > 200000:
                self.cache.clear()
            self.cache[k] = self.observe(term, seed)
        return self.cache[k]

    def core(self, term, obs, seed):
        for ch in children(term):
            if ch[0] == "Arr":
                continue
            try:
                fails, _, _ = self.failing(ch, seed)
            except Exception:
                continue
            if obs in fails:
                return self.core(ch, obs, seed)
        return term

    def run(self, term, seed):
        fails, n, oc = self.failing(term, seed)
        vio = []
        for obs, (sym, detail) in fails.items():
            core = self.core(term, obs, seed)
            vio.append({
                "key": f"{self.prop}|{obs}|{sym}|{self.sig(core)}",
                "what": f"{obs}: {sym} on {self.sig(core)}",
                "detail": {"core": core, **(detail or {})},
            })
        return {"transitions": n, "outcome": oc, "violations": vio}
